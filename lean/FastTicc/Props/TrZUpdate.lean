/-
TRANSLATED CODE = MODEL (the Z-update of admm/solver.py: compute_lambda_sum and admm_update_z, properties C02 / C18).
`Generated/Kernels.lean` is rewritten from the Python AST of `$REPO/src/fast_ticc` by `harness/py2lean.py` on every run; the
theorems below are about those generated definitions.  `args` is the record of the four `ADMMArguments` fields the
function reads; the `isinstance` dispatch of `compute_lambda_sum` is a `match` on scalar / matrix; a call that can raise
inside the loops records the first error in a carried variable and the error is thrown after the loops.
-/
import FastTicc.Props.TrIndex
import FastTicc.Props.TrSoft
import FastTicc.Model.Numeric
open FastTicc FastTicc.PyLemmas FastTicc.Index

namespace FastTicc.Translated
section
variable {α : Type} [Field α] [LinearOrder α]

/-- the model's sparsity weight for a translated one -/
def lamOf (lam : Py.Lambda α) : Numeric.Lambda α :=
  match lam with
  | .scalar v => .scalar v
  | .matrix M => .matrix M.get

/-- a vector as the translated code sees a Python list of floats (reads past the end give 0, as the model's `getD`) -/
def arrOf (l : List α) : Py.Arr1 α := ⟨l.length, fun k => l.getD k 0⟩

theorem sumAt2_positions (M : Py.Arr2 α) (ps : List (Nat × Nat)) :
    Py.Arr2.sumAt M (ps.map (fun p => (p.1 : Int))) (ps.map (fun p => (p.2 : Int)))
      = Numeric.sumOver ps (fun p => M.get p.1 p.2) := by
  unfold Py.Arr2.sumAt Numeric.sumOver
  generalize (0 : α) = acc
  induction ps generalizing acc with
  | nil => rfl
  | cons p t ih =>
    simp only [List.map_cons, List.zip_cons_cons, List.foldl_cons, idx_nat]
    exact ih _

theorem sumAt_natCast (a : Py.Arr1 α) (is : List Nat) :
    Py.Arr1.sumAt a (is.map (fun (i : Nat) => (i : Int))) = Numeric.sumOver is a.get := by
  unfold Py.Arr1.sumAt Numeric.sumOver
  generalize (0 : α) = acc
  induction is generalizing acc with
  | nil => rfl
  | cons p t ih =>
    simp only [List.map_cons, List.foldl_cons, idx_nat]
    exact ih _

/-- **the translated `compute_lambda_sum` is the model's `lambdaSum`** for a class of the Z-update -/
theorem compute_lambda_sum_eq (lam : Py.Lambda α) (b r c N W : Nat) (hb : b < W) (hN : 0 < N) :
    Gen.compute_lambda_sum lam (b : Int) (r : Int) (c : Int) (N : Int) (W : Int)
      = .ok (Numeric.lambdaSum (lamOf lam) b r c N W) := by
  unfold Gen.compute_lambda_sum
  cases lam with
  | scalar v =>
    simp only [lamOf, Numeric.lambdaSum, Numeric.lambdaSumScalar, pure, Except.pure]
    have : (W : Int) - (b : Int) = ((W - b : Nat) : Int) := by omega
    rw [this]
    simp
  | matrix M =>
    simp only [lamOf, Numeric.lambdaSum, Numeric.lambdaSumMatrix]
    rw [locations_index_slices_eq b r c N W hb hN]
    simp only [bind, Except.bind, pure, Except.pure, Index.locSlices, List.map_map]
    congr 1
    exact sumAt2_positions M (positions b r c N W)


/-- one class of the Z-update on the translated vector: write the class value at the class positions -/
def zStep (rho : α) (lam : Py.Lambda α) (N W : Nat) (tpu : Py.Arr1 α) (z : Py.Arr1 α) (k : Nat × Nat × Nat) : Py.Arr1 α :=
  Py.Arr1.setMany z ((locCompressed k.1 k.2.1 k.2.2 N W).map (fun (i : Nat) => (i : Int)))
    (Numeric.classValue rho (lamOf lam) tpu.get k.1 k.2.1 k.2.2 N W)

/-- the body of the innermost loop, for a class the Z-update iterates over and no earlier error -/
theorem z_body (rho : α) (lam : Py.Lambda α) (N W : Nat) (tpu z : Py.Arr1 α) (b r c : Nat)
    (hb : b < W) (hr : r < N) (hc : c < N) (hrc : b = 0 → r ≤ c) :
    (let t_4 := Gen.compute_lambda_sum lam (b : Int) (r : Int) (c : Int) (N : Int) (W : Int)
     let err_ := Py.firstErr (none : Option String) t_4
     let lambda_sum := Py.okOr t_4 (0 : α)
     let t_5 := Gen.locations_compressed (b : Int) (r : Int) (c : Int) (N : Int) (W : Int)
     let err_ := Py.firstErr err_ t_5
     let indices := Py.okOr t_5 []
     let scaled_point_sum := rho * Py.Arr1.sumAt tpu indices
     let z_update := Py.Arr1.setMany z indices
        (Gen.soft_threshold_prox scaled_point_sum lambda_sum (rho * ((((W : Int) - (b : Int) : Int)) : α)))
     (z_update, err_)) = (zStep rho lam N W tpu z (b, r, c), none) := by
  simp only [compute_lambda_sum_eq lam b r c N W hb (by omega), locations_compressed_eq b r c N W hb hr hc hrc,
    Py.firstErr, Py.okOr, sumAt_natCast, soft_threshold_prox_eq, zStep, Numeric.classValue]
  have : (W : Int) - (b : Int) = ((W - b : Nat) : Int) := by omega
  rw [this]
  simp


omit [Field α] [LinearOrder α] in
theorem foldl_pair_none {σ ι : Type} (l : List ι) (body : ι → σ × Option String → σ × Option String) (step : σ → ι → σ)
    (h : ∀ z, ∀ i ∈ l, body i (z, none) = (step z i, none)) (z : σ) :
    l.foldl (fun s i => body i s) (z, none) = (l.foldl step z, none) := by
  induction l generalizing z with
  | nil => rfl
  | cons a t ih =>
    simp only [List.foldl_cons]
    rw [h z a (by simp), ih (fun z i hi => h z i (by simp [hi]))]

omit [Field α] [LinearOrder α] in
theorem range_from_nat (a n : Nat) :
    Py.range (a : Int) (n : Int) 1 = (List.range' a (n - a)).map (fun (k : Nat) => (k : Int)) := by
  unfold Py.range
  have hl : Py.rangeLen (a : Int) (n : Int) 1 = n - a := by
    unfold Py.rangeLen
    simp
  rw [hl, List.range'_eq_map_range, List.map_map]
  apply List.map_congr_left
  intro k _
  simp

omit [Field α] [LinearOrder α] in
theorem filter_le_range (a : Nat) : ∀ n, (List.range n).filter (fun c => decide (a ≤ c)) = List.range' a (n - a)
  | 0 => by simp
  | n + 1 => by
    rw [List.range_succ, List.filter_append, filter_le_range a n]
    by_cases h : a ≤ n
    · have e : n + 1 - a = (n - a) + 1 := by omega
      rw [e, List.range'_concat]
      simp [h]
    · have e : n + 1 - a = 0 := by omega
      have e' : n - a = 0 := by omega
      simp [h, e, e']

/-- the columns the Z-update visits for block `b`, row `r` (as in `Index.classes`) -/
def colsList (N b r : Nat) : List Nat := (List.range N).filter (fun c => if b = 0 then r ≤ c else true)

omit [Field α] [LinearOrder α] in
theorem colsList_eq (N b r : Nat) : colsList N b r = List.range' (if b = 0 then r else 0) (N - (if b = 0 then r else 0)) := by
  unfold colsList
  by_cases hb : b = 0
  · simp only [hb, if_true]
    exact filter_le_range r N
  · simp only [hb, if_false]
    simp [List.range_eq_range']

def colsStep (rho : α) (lam : Py.Lambda α) (N W : Nat) (tpu z : Py.Arr1 α) (b r : Nat) : Py.Arr1 α :=
  (colsList N b r).foldl (fun z c => zStep rho lam N W tpu z (b, r, c)) z

def rowsStep (rho : α) (lam : Py.Lambda α) (N W : Nat) (tpu z : Py.Arr1 α) (b : Nat) : Py.Arr1 α :=
  (List.range N).foldl (fun z r => colsStep rho lam N W tpu z b r) z

/-- the three nested loops are a fold over `Index.classes N W` -/
theorem blocks_fold_eq_classes (rho : α) (lam : Py.Lambda α) (N W : Nat) (tpu z : Py.Arr1 α) :
    (List.range W).foldl (rowsStep rho lam N W tpu) z = (classes N W).foldl (zStep rho lam N W tpu) z := by
  unfold classes rowsStep colsStep colsList
  rw [List.foldl_flatMap]
  apply foldl_congr_mem
  intro acc b _
  rw [List.foldl_flatMap]
  apply foldl_congr_mem
  intro acc r _
  rw [List.foldl_map]


omit [LinearOrder α] in
/-- writing one value at a list of positions: the vector's entries as a list -/
theorem toList_setMany (a : Py.Arr1 α) (is : List Nat) (v : α) :
    (Py.Arr1.setMany a (is.map (fun (i : Nat) => (i : Int))) v).toList = is.foldl (fun l i => l.set i v) a.toList := by
  induction is generalizing a with
  | nil =>
    simp [Py.Arr1.setMany, Py.Arr1.toList]
  | cons i t ih =>
    simp only [List.foldl_cons]
    have h1 : (Py.Arr1.setMany a (((i :: t)).map (fun (i : Nat) => (i : Int))) v).toList
        = (Py.Arr1.setMany (Py.Arr1.set a (i : Int) v) (t.map (fun (i : Nat) => (i : Int))) v).toList := by
      unfold Py.Arr1.toList Py.Arr1.setMany Py.Arr1.set
      simp only [List.map_cons, List.map_map, idx_nat]
      apply List.map_congr_left
      intro k _
      by_cases hk : k = i
      · subst hk; simp
      · simp [hk]
    rw [h1, ih]
    congr 1
    unfold Py.Arr1.toList Py.Arr1.set
    simp only [idx_nat]
    apply List.ext_getElem
    · simp
    · intro k hk1 hk2
      simp only [List.getElem_map, List.getElem_range, List.getElem_set]
      by_cases hki : i = k
      · subst hki; simp
      · simp [hki, Ne.symm hki]

theorem zStep_toList (rho : α) (lam : Py.Lambda α) (N W : Nat) (tpu z : Py.Arr1 α) (k : Nat × Nat × Nat) :
    (zStep rho lam N W tpu z k).toList
      = (locCompressed k.1 k.2.1 k.2.2 N W).foldl
          (fun l i => l.set i (Numeric.classValue rho (lamOf lam) tpu.get k.1 k.2.1 k.2.2 N W)) z.toList := by
  unfold zStep
  exact toList_setMany _ _ _

theorem classes_fold_toList (rho : α) (lam : Py.Lambda α) (N W : Nat) (tpu : Py.Arr1 α) (cs : List (Nat × Nat × Nat))
    (z : Py.Arr1 α) :
    (cs.foldl (zStep rho lam N W tpu) z).toList
      = cs.foldl (fun l k => (locCompressed k.1 k.2.1 k.2.2 N W).foldl
          (fun l i => l.set i (Numeric.classValue rho (lamOf lam) tpu.get k.1 k.2.1 k.2.2 N W)) l) z.toList := by
  induction cs generalizing z with
  | nil => rfl
  | cons k t ih =>
    simp only [List.foldl_cons]
    rw [ih, zStep_toList]


/-- the three loop bodies of the generated Z-update, named -/
def zColBody (rho : α) (lam : Py.Lambda α) (N W : Int) (tpu : Py.Arr1 α) (b r col : Int)
    (s : Py.Arr1 α × Option String) : Py.Arr1 α × Option String :=
  let t_4 := Gen.compute_lambda_sum lam b r col N W
  let err := Py.firstErr s.2 t_4
  let lambda_sum := Py.okOr t_4 (0 : α)
  let t_5 := Gen.locations_compressed b r col N W
  let err := Py.firstErr err t_5
  let indices := Py.okOr t_5 []
  (Py.Arr1.setMany s.1 indices
    (Gen.soft_threshold_prox (rho * Py.Arr1.sumAt tpu indices) lambda_sum (rho * (((W - b : Int)) : α))), err)

def zRowBody (rho : α) (lam : Py.Lambda α) (N W : Int) (tpu : Py.Arr1 α) (b row : Int)
    (s : Py.Arr1 α × Option String) : Py.Arr1 α × Option String :=
  Py.forEach (Py.range (if decide (b = 0) then row else 0) N 1) s (zColBody rho lam N W tpu b row)

def zBlockBody (rho : α) (lam : Py.Lambda α) (N W : Int) (tpu : Py.Arr1 α) (b : Int)
    (s : Py.Arr1 α × Option String) : Py.Arr1 α × Option String :=
  Py.forEach (Py.range 0 N 1) s (zRowBody rho lam N W tpu b)

/-- the generated Z-update with its loop bodies named (`rfl`: the generated text is literally this) -/
theorem gen_z_structured (args : Py.ADMMArgs α) (u x : Py.Arr1 α) :
    Gen.admm_update_z args u x =
      (let r := Py.forEach (Py.range 0 args.window_size 1)
                  (Py.Arr1.const (Py.Arr1.size x) (0 : α), (none : Option String))
                  (zBlockBody args.rho args.sparsity_weight args.num_data_series args.window_size (Py.Arr1.add x u))
       (do
         match r.2 with
         | some e_ => throw e_
         | none => pure ()
         return r.1)) := rfl

/-- **the translated Z-update is the model's Z-update**: for every step parameter, sparsity weight (scalar or matrix),
sensor count `N ≥ 1`, window `W` and compressed vectors `u`, `x`, the function translated from `admm_update_z` (three
nested loops over blocks, rows and columns, each class handled through the translated `compute_lambda_sum`,
`locations_compressed` and `soft_threshold_prox`) raises nothing and returns `Numeric.zUpdate`. -/
theorem admm_update_z_eq (rho : α) (lam : Py.Lambda α) (N W : Nat) (us xs : List α)
    (mi : Int := 1000) (vb : Bool := false) (cb : Option (α → α → α → α → α → α) := none) (atol : α := 0) (rtol : α := 0) :
    ∃ z, Gen.admm_update_z ⟨(W : Int), (N : Int), rho, lam, mi, vb, cb, atol, rtol⟩ (arrOf us) (arrOf xs) = .ok z ∧
      z.toList = Numeric.zUpdate rho (lamOf lam) N W us xs := by
  let tpu : Py.Arr1 α := Py.Arr1.add (arrOf xs) (arrOf us)
  let z0 : Py.Arr1 α := Py.Arr1.const (Py.Arr1.size (arrOf xs)) (0 : α)
  have hcols : ∀ (b r : Nat), b < W → r < N → ∀ z : Py.Arr1 α,
      zRowBody rho lam (N : Int) (W : Int) tpu (b : Int) (r : Int) (z, none) = (colsStep rho lam N W tpu z b r, none) := by
    intro b r hb hr z
    unfold zRowBody
    have hs : (if decide ((b : Int) = 0) = true then (r : Int) else 0) = (((if b = 0 then r else 0 : Nat)) : Int) := by
      by_cases h0 : b = 0 <;> simp [h0]
    rw [hs, range_from_nat]
    unfold Py.forEach colsStep
    rw [List.foldl_map, colsList_eq]
    apply foldl_pair_none
    intro z c hc
    have hc' := List.mem_range'_1.mp hc
    have hcN : c < N := by
      by_cases h0 : b = 0 <;> simp [h0] at hc' <;> omega
    have hrc : b = 0 → r ≤ c := by
      intro h0; simp [h0] at hc'; omega
    have := z_body rho lam N W tpu z b r c hb hr hcN hrc
    unfold zColBody
    simpa using this
  have hrows : ∀ (b : Nat), b < W → ∀ z : Py.Arr1 α,
      zBlockBody rho lam (N : Int) (W : Int) tpu (b : Int) (z, none) = (rowsStep rho lam N W tpu z b, none) := by
    intro b hb z
    unfold zBlockBody rowsStep
    rw [forEach_range]
    apply foldl_pair_none
    intro z r hr
    exact hcols b r hb (List.mem_range.mp hr) z
  have hall : Py.forEach (Py.range 0 (W : Int) 1) (z0, (none : Option String)) (zBlockBody rho lam (N : Int) (W : Int) tpu)
      = ((classes N W).foldl (zStep rho lam N W tpu) z0, none) := by
    rw [forEach_range, ← blocks_fold_eq_classes]
    apply foldl_pair_none
    intro z b hb
    exact hrows b (List.mem_range.mp hb) z
  refine ⟨(classes N W).foldl (zStep rho lam N W tpu) z0, ?_, ?_⟩
  · rw [gen_z_structured]
    simp only []
    rw [hall]
    rfl
  · rw [classes_fold_toList]
    unfold Numeric.zUpdate
    have hz0 : z0.toList = List.replicate xs.length (0 : α) := by
      simp [z0, Py.Arr1.toList, Py.Arr1.const, Py.Arr1.size, arrOf, List.map_const']
    have htpu : tpu.get = fun i => xs.getD i 0 + us.getD i 0 := by
      funext i; simp [tpu, Py.Arr1.add, arrOf]
    rw [hz0, htpu]

end
end FastTicc.Translated

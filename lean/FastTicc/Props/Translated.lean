/-
TRANSLATED CODE = MODEL.  `Generated/Kernels.lean` is rewritten from the Python AST of `$REPO/src/fast_ticc`
by `harness/py2lean.py` on every run.  Each theorem below proves, for ALL inputs, that one translated function
computes exactly what the hand-written model computes (`Model/Stack`, `Model/Index`, `Model/Viterbi`) - the model
the property theorems C01, C04, C07, C10, C11 are about.  They are re-checked against the regenerated text, so
they only keep checking while the source still says what the model says.
-/
import FastTicc.Proofs.Translated
import FastTicc.Props.C01
open FastTicc FastTicc.PyLemmas

namespace FastTicc.Translated

theorem size_including_this_row_eq (r n : Int) :
    Gen._size_including_this_row r n = ((n * (r + 1) - r * (r + 1) / 2 : Int) : Rat) := by
  unfold Gen._size_including_this_row
  rw [trueDiv_even _ (mul_succ_even r)]
  push_cast
  ring

theorem compressed_index_eq (r c n : Nat) (hrc : r ≤ c) (hcn : c < n) :
    Gen._compressed_index (r : Int) (c : Int) (n : Int) = .ok ((Index.compressedIndex r c n : Nat) : Int) := by
  unfold Gen._compressed_index
  have h : ¬ ((c : Int) < (r : Int)) := by omega
  simp only [h, decide_false, Bool.false_eq_true, if_false]
  rw [size_including_this_row_eq]
  unfold Gen._elements_in_row_after_target
  rw [← Int.cast_sub, intOfRat_intCast]
  unfold Index.compressedIndex Index.sizeIncludingRow Index.elementsAfter
  have e1 : (n : Int) * ((r : Int) + 1) = ((n * (r + 1) : Nat) : Int) := by push_cast; ring
  have e2 : (r : Int) * ((r : Int) + 1) = ((r * (r + 1) : Nat) : Int) := by push_cast; ring
  have h2 : r * (r + 1) ≤ c * (r + 1) := Nat.mul_le_mul_right _ hrc
  have h3 : c * (r + 1) + (r + 1) ≤ n * (r + 1) := by
    have : (c + 1) * (r + 1) ≤ n * (r + 1) := Nat.mul_le_mul_right _ hcn
    linarith
  have h4 : c * (r + 1) + (n - c) ≤ n * (r + 1) := by
    have e : n * (r + 1) = c * (r + 1) + (n - c) * (r + 1) := by
      rw [← Nat.add_mul]; congr 1; omega
    have : n - c ≤ (n - c) * (r + 1) := Nat.le_mul_of_pos_right _ (by omega)
    omega
  simp only [pure, Except.pure]
  congr 1
  rw [e1, e2]
  generalize r * (r + 1) = P at *
  generalize n * (r + 1) = Q at *
  generalize c * (r + 1) = R at *
  omega


theorem block_start_coordinates_eq (b N W : Nat) (hb : b < W) (hN : 0 < N) :
    Gen._block_start_coordinates (b : Int) (N : Int) (W : Int)
      = .ok ((Index.blockStarts b N W).map (fun p => ((p.1 : Int), (p.2 : Int)))) := by
  unfold Gen._block_start_coordinates
  have g1 : ¬ ((b : Int) < 0) := by omega
  have g2 : ¬ ((b : Int) ≥ (W : Int)) := by omega
  have g3 : ¬ ((N : Int) ≤ 0) := by omega
  have g4 : ¬ ((W : Int) ≤ 0) := by omega
  simp only [g1, g2, g3, g4, decide_false, Bool.or_false, Bool.false_eq_true, if_false]
  have hn : (W : Int) - (b : Int) = ((W - b : Nat) : Int) := by omega
  rw [hn, forEach_range]
  -- loop invariant
  have inv : ∀ m, m ≤ W - b →
      (List.range m).foldl (fun (s : List (Int × Int) × Bool) (k : Nat) =>
        (Py.append s.1 ((0 : Int) + (k : Int) * (N : Int), (b : Int) * (N : Int) + (k : Int) * (N : Int)),
          (((s.2 && decide ((Py.getItem (Py.append s.1 ((0 : Int) + (k : Int) * (N : Int), (b : Int) * (N : Int) + (k : Int) * (N : Int))) (-1)).1 ≥ 0))
            && decide ((Py.getItem (Py.append s.1 ((0 : Int) + (k : Int) * (N : Int), (b : Int) * (N : Int) + (k : Int) * (N : Int))) (-1)).1 < (W : Int) * (N : Int)))
            && decide ((Py.getItem (Py.append s.1 ((0 : Int) + (k : Int) * (N : Int), (b : Int) * (N : Int) + (k : Int) * (N : Int))) (-1)).2 ≥ 0))
            && decide ((Py.getItem (Py.append s.1 ((0 : Int) + (k : Int) * (N : Int), (b : Int) * (N : Int) + (k : Int) * (N : Int))) (-1)).2 < (W : Int) * (N : Int))))
        (([] : List (Int × Int)), true)
      = ((List.range m).map (fun (i : Nat) => (((0 + i * N : Nat) : Int), ((b * N + i * N : Nat) : Int))), true) := by
    intro m
    induction m with
    | zero => intro _; rfl
    | succ k ih =>
      intro hk
      rw [List.range_succ, List.foldl_append, ih (by omega)]
      simp only [List.foldl_cons, List.foldl_nil, getItem_append_last, List.map_append, List.map_cons, List.map_nil]
      have hk1 : (k + 1) * N ≤ W * N := Nat.mul_le_mul_right _ (by omega)
      have hk2 : (b + k + 1) * N ≤ W * N := Nat.mul_le_mul_right _ (by omega)
      have c1 : (0 : Int) + (k : Int) * (N : Int) ≥ 0 := by positivity
      have c2 : (0 : Int) + (k : Int) * (N : Int) < (W : Int) * (N : Int) := by
        have : ((k * N + N : Nat) : Int) ≤ ((W * N : Nat) : Int) := by
          have : k * N + N ≤ W * N := by nlinarith
          exact_mod_cast this
        push_cast at this; linarith
      have c3 : (b : Int) * (N : Int) + (k : Int) * (N : Int) ≥ 0 := by positivity
      have c4 : (b : Int) * (N : Int) + (k : Int) * (N : Int) < (W : Int) * (N : Int) := by
        have : ((b * N + k * N + N : Nat) : Int) ≤ ((W * N : Nat) : Int) := by
          have : b * N + k * N + N ≤ W * N := by nlinarith
          exact_mod_cast this
        push_cast at this; linarith
      simp only [c1, c2, c3, c4, decide_true, Bool.and_true, Py.append]
      congr 2
  have := inv (W - b) (le_refl _)
  rw [this]
  simp only [Bool.not_true, Bool.false_eq_true, if_false, pure, Except.pure, bind, Except.bind, Index.blockStarts,
    List.map_map]
  rfl

theorem unique_variable_locations_eq (b r c N W : Nat) (hb : b < W) (hN : 0 < N) :
    Gen._unique_variable_locations (b : Int) (r : Int) (c : Int) (N : Int) (W : Int)
      = .ok ((Index.positions b r c N W).map (fun p => ((p.1 : Int), (p.2 : Int)))) := by
  unfold Gen._unique_variable_locations
  rw [block_start_coordinates_eq b N W hb hN]
  simp only [bind, Except.bind, pure, Except.pure, Index.positions, List.map_map]
  congr 1

theorem locations_index_slices_eq (b r c N W : Nat) (hb : b < W) (hN : 0 < N) :
    Gen.locations_index_slices (b : Int) (r : Int) (c : Int) (N : Int) (W : Int)
      = .ok (((Index.locSlices b r c N W).1.map (fun (x : Nat) => (x : Int))),
             ((Index.locSlices b r c N W).2.map (fun (x : Nat) => (x : Int)))) := by
  unfold Gen.locations_index_slices
  rw [unique_variable_locations_eq b r c N W hb hN]
  simp only [bind, Except.bind, pure, Except.pure, Index.locSlices, List.map_map]
  rfl

theorem mapM_ok {α β} (f : α → Except String β) (g : α → β) (l : List α) (h : ∀ a ∈ l, f a = .ok (g a)) :
    l.mapM f = .ok (l.map g) := by
  induction l with
  | nil => rfl
  | cons a t ih =>
    rw [List.mapM_cons, h a (by simp), ih (fun x hx => h x (by simp [hx]))]
    rfl

/-- the class `(b, r, c)` is one the Z-update iterates over: `r, c < N` and `r ≤ c` on the diagonal block. -/
theorem locations_compressed_eq (b r c N W : Nat) (hb : b < W) (hr : r < N) (hc : c < N) (hrc : b = 0 → r ≤ c) :
    Gen.locations_compressed (b : Int) (r : Int) (c : Int) (N : Int) (W : Int)
      = .ok ((Index.locCompressed b r c N W).map (fun (x : Nat) => (x : Int))) := by
  unfold Gen.locations_compressed
  rw [unique_variable_locations_eq b r c N W hb (by omega)]
  simp only [bind, Except.bind, pure, Except.pure]
  rw [mapM_ok _ (fun p => ((Index.compressedIndex p.1.toNat p.2.toNat (N * W) : Nat) : Int))]
  · simp only [Index.locCompressed, List.map_map]
    congr 1
  · intro p hp
    simp only [List.mem_map, Index.positions, Index.blockStarts, List.mem_range] at hp
    obtain ⟨q, ⟨s, ⟨i, hi, rfl⟩, rfl⟩, rfl⟩ := hp
    simp only
    have e : (N : Int) * (W : Int) = ((N * W : Nat) : Int) := by push_cast; rfl
    rw [e]
    have hle : 0 + i * N + r ≤ b * N + i * N + c := by
      rcases Nat.eq_zero_or_pos b with h0 | h0
      · have := hrc h0; subst h0; omega
      · have : N ≤ b * N := Nat.le_mul_of_pos_left _ h0
        omega
    have hlt : b * N + i * N + c < N * W := by
      have : (b + i + 1) * N ≤ W * N := Nat.mul_le_mul_right _ (by omega)
      nlinarith
    have := compressed_index_eq (0 + i * N + r) (b * N + i * N + c) (N * W) hle hlt
    have t1 : ((i : Int) * (N : Int) + (r : Int)).toNat = i * N + r := by
      have : (i : Int) * (N : Int) + (r : Int) = ((i * N + r : Nat) : Int) := by push_cast; ring
      rw [this, Int.toNat_natCast]
    have t2 : ((b : Int) * (N : Int) + (i : Int) * (N : Int) + (c : Int)).toNat = b * N + i * N + c := by
      have : (b : Int) * (N : Int) + (i : Int) * (N : Int) + (c : Int) = ((b * N + i * N + c : Nat) : Int) := by
        push_cast; ring
      rw [this, Int.toNat_natCast]
    simp only [Nat.cast_add, Nat.cast_mul, Nat.cast_zero, zero_add] at this ⊢
    rw [t1, t2]
    simpa using this

theorem split_joint_labels_eq (joint : List Int) (lens : List Nat) :
    Gen.split_joint_labels joint (lens.map (fun (x : Nat) => (x : Int)))
      = if joint.length = lens.sum then .ok (Stack.splitJoint joint lens) else .error "AssertionError" := by
  unfold Gen.split_joint_labels
  rw [sum_natCast]
  by_cases h : joint.length = lens.sum
  · have hc : Py.len joint = ((lens.sum : Nat) : Int) := by simp [Py.len, h]
    simp only [hc, h, decide_true, Bool.not_true, Bool.false_eq_true, if_false, if_true]
    have hl : Py.len (lens.map (fun (x : Nat) => (x : Int))) = ((lens.length : Nat) : Int) := by simp [Py.len]
    rw [hl, forEach_range, accumulate_natCast]
    simp only [pure, Except.pure, bind, Except.bind]
    congr 1
    rw [splitJoint_eq_map]
    -- the loop body, with the loop index a natural number below `lens.length`
    have body : ∀ (acc : List (List Int)) (i : Nat), i ∈ List.range lens.length →
        (Py.append acc (Py.slice joint
            (if decide ((i : Int) = 0) = true then (0 : Int)
              else Py.getItem ((List.range lens.length).map (fun i => ((pref lens (i + 1) : Nat) : Int))) ((i : Int) - 1))
            (Py.getItem ((List.range lens.length).map (fun i => ((pref lens (i + 1) : Nat) : Int))) (i : Int))))
        = acc ++ [(joint.drop (pref lens i)).take (lens.getD i 0)] := by
      intro acc i hi
      have hi' : i < lens.length := List.mem_range.mp hi
      rw [getItem_natCast_map _ _ _ hi']
      have hstart : (if decide ((i : Int) = 0) = true then (0 : Int)
              else Py.getItem ((List.range lens.length).map (fun i => ((pref lens (i + 1) : Nat) : Int))) ((i : Int) - 1))
          = ((pref lens i : Nat) : Int) := by
        rcases Nat.eq_zero_or_pos i with h0 | h0
        · subst h0; simp [pref]
        · have : ¬ ((i : Int) = 0) := by omega
          simp only [this, decide_false, Bool.false_eq_true, if_false]
          have e : (i : Int) - 1 = ((i - 1 : Nat) : Int) := by omega
          rw [e, getItem_natCast_map _ _ _ (by omega)]
          congr 2; omega
      rw [hstart, pref_succ lens i hi']
      rw [slice_natCast joint _ _ (by omega) (by have := pref_le_sum lens (i + 1); rw [pref_succ lens i hi'] at this; omega)]
      unfold Py.append
      have hg : lens.getD i 0 = lens[i] := by simp [List.getD_eq_getElem?_getD, hi']
      rw [hg]
      congr 3
      omega
    refine Eq.trans (foldl_congr_mem _ _
      (fun (s : List (List Int)) (k : Nat) => s ++ [(joint.drop (pref lens k)).take (lens.getD k 0)]) _ body) ?_
    rw [foldl_append_map]
    simp
  · have hc : ¬ (Py.len joint = ((lens.sum : Nat) : Int)) := by simp [Py.len]; omega
    simp only [hc, h, decide_false, Bool.not_false, if_true, if_false]
    rfl


theorem label_switching_cost_template_eq {α : Type} [Zero α] [One α] (lens : List Nat) (hpos : ∀ x ∈ lens, 0 < x) :
    (Gen.label_switching_cost_template (α := α) (lens.map (fun (x : Nat) => (x : Int)))).toList
      = (Stack.maskTemplate lens).map (fun b => if b = 0 then (0 : α) else 1) := by
  unfold Gen.label_switching_cost_template Stack.maskTemplate
  rw [sum_natCast, accumulate_natCast, stack_accumulate_eq]
  simp only [Py.Arr1.toList, Py.Arr1.setMany, Py.Arr1.const, Py.popLast, Int.toNat_natCast, List.map_map]
  apply List.map_congr_left
  intro k hk
  have key : (List.map (Py.idx lens.sum ∘ fun endpoint => endpoint - 1)
        (List.map (fun i => ((pref lens (i + 1) : Nat) : Int)) (List.range lens.length)).dropLast)
      = List.map (fun x => x - 1) (List.map (fun i => pref lens (i + 1)) (List.range lens.length)).dropLast := by
    rw [← List.map_dropLast, ← List.map_dropLast, List.map_map, List.map_map]
    apply List.map_congr_left
    intro i hi
    have hi' : i < lens.length := by
      have := List.dropLast_subset _ hi
      exact List.mem_range.mp this
    have := pref_pos lens hpos i hi'
    simp only [Function.comp, Py.idx]
    have h0 : ¬ (((pref lens (i + 1) : Nat) : Int) - 1 < 0) := by omega
    rw [if_neg h0]
    omega
  simp only [Function.comp] at key ⊢
  rw [key]
  split <;> simp

section
variable {α : Type} [Zero α] [Add α] [Sub α] [LT α] [DecidableLT α]

/-- the switching-cost vector the kernel builds on its first line: `np.zeros(T) + beta` -/
def kernelBeta (cost : Py.Arr2 α) (sov : Py.ScalarOrVec α) : Py.Arr1 α :=
  Py.broadcastAdd (Py.Arr1.const (cost.rows : Int) (0 : α)) sov

/-- **the translated labelling kernel is the Viterbi model**: for every cost table with at least one point and one
cluster and every switching cost (scalar or vector), the function translated from `assign_point_cluster_labels`
returns exactly the labels and the cost of `Viterbi.viterbi` on the same points. -/
theorem assign_point_cluster_labels_eq (cost : Py.Arr2 α) (sov : Py.ScalarOrVec α)
    (hT : 0 < cost.rows) (hK : 0 < cost.cols) :
    Gen.assign_point_cluster_labels cost sov
      = (((Viterbi.viterbi cost.cols (ptsOf cost (kernelBeta cost sov))).1.map (fun (c : Nat) => (c : Int))),
         (Viterbi.viterbi cost.cols (ptsOf cost (kernelBeta cost sov))).2) := by
  rw [gen_viterbi_structured]
  unfold kernelBeta
  have hl : (Py.broadcastAdd (Py.Arr1.const (cost.rows : Int) (0 : α)) sov).n = cost.rows := lsc_n cost.rows sov
  simp only [Py.Arr2.shape0, Py.Arr2.shape1]
  generalize Py.broadcastAdd (Py.Arr1.const (cost.rows : Int) (0 : α)) sov = lsc at *
  have e2 : (cost.rows : Int) - 2 = ((cost.rows - 1 : Nat) : Int) - 1 := by omega
  rw [e2, forEach_range_down]
  have hst : (List.range (cost.rows - 1)).foldl
      (fun s (k : Nat) => outerBody cost lsc (cost.cols : Int) (((cost.rows - 1 - 1 - k : Nat) : Nat) : Int) s)
      (Py.Arr2.const cost.rows cost.cols (0 : Int), Py.Arr2.const cost.rows cost.cols (0 : α))
      = outerState cost lsc (cost.rows - 1) := rfl
  rw [hst]
  obtain ⟨h1, h2, h3, h4, h5, h6⟩ := outer_loop cost lsc hl hK (cost.rows - 1) (by omega)
  generalize outerState cost lsc (cost.rows - 1) = st at *
  -- the model side
  obtain ⟨T', hT'⟩ : ∃ T', cost.rows = T' + 1 := ⟨cost.rows - 1, by omega⟩
  have hpts : ptsOf cost lsc = (cost.get 0, lsc.get 0) :: (ptsOf cost lsc).drop 1 := by
    unfold ptsOf
    rw [hT', List.range_succ_eq_map]
    simp
  have hfut0 : (Viterbi.back cost.cols (ptsOf cost lsc)).1 = futM cost lsc 0 := by
    unfold futM; rw [List.drop_zero]
  have hpath : (Viterbi.back cost.cols (ptsOf cost lsc)).2 = (List.range (cost.rows - 1)).map (pathRow cost lsc) := by
    have := back_snd_eq cost lsc (cost.rows - 1) 0 (by omega)
    rw [List.drop_zero] at this
    rw [this]
    apply List.map_congr_left
    intro j _
    simp [pathRow]
  -- the start label
  have hstart : Py.Arr1.argmin (Py.Arr1.add (st.2.row 0) (cost.row 0))
      = ((Viterbi.argmin (fun c => futM cost lsc 0 c + cost.get 0 c) cost.cols : Nat) : Int) := by
    simp only [Py.Arr1.argmin, Py.Arr1.add, Py.Arr2.row, h4, pyArgminUpTo_eq, Viterbi.argmin]
    congr 1
    apply Viterbi.argminUpTo_congr
    intro c hc
    have : Py.idx st.2.rows 0 = 0 := idx_nat _ 0
    have h0 : Py.idx cost.rows 0 = 0 := idx_nat _ 0
    simp only [this, h0]
    rw [h5 0 c (by omega) (by omega) (by omega)]
  set start := Viterbi.argmin (fun c => futM cost lsc 0 c + cost.get 0 c) cost.cols with hs
  have hslt : start < cost.cols := Viterbi.argmin_lt _ hK
  have hmodel : Viterbi.viterbi cost.cols (ptsOf cost lsc)
      = ((List.range cost.rows).map (labs (pathRow cost lsc) start), futM cost lsc 0 start + cost.get 0 start) := by
    rw [hpts]
    simp only [Viterbi.viterbi]
    rw [← hpts, hfut0, hpath, ← hs, follow_map_range]
    have : cost.rows - 1 + 1 = cost.rows := by omega
    rw [this]
  rw [hmodel, hstart]
  -- the initial path list
  have hpath0 : Py.setItem (Py.repeatList [(-1 : Int)] (cost.rows : Int)) 0 ((start : Nat) : Int)
      = (List.range cost.rows).map (fun j => if j ≤ 0 then ((labs (pathRow cost lsc) start j : Nat) : Int) else -1) := by
    rw [repeatList_single]
    unfold Py.setItem
    have : Py.idx (List.replicate cost.rows (-1 : Int)).length 0 = 0 := idx_nat _ 0
    rw [this]
    apply List.ext_getElem
    · simp
    · intro j hj1 hj2
      simp only [List.getElem_set, List.getElem_map, List.getElem_range, List.getElem_replicate]
      by_cases hj : 0 = j
      · subst hj; simp [labs]
      · rw [if_neg hj, if_neg (by omega)]
  rw [hpath0]
  have hg0 : Py.getItem ((List.range cost.rows).map
      (fun j => if j ≤ 0 then ((labs (pathRow cost lsc) start j : Nat) : Int) else -1)) 0 = ((start : Nat) : Int) := by
    have := getItem_natCast_map (fun j => if j ≤ 0 then ((labs (pathRow cost lsc) start j : Nat) : Int) else -1)
      cost.rows 0 hT
    simpa [labs] using this
  rw [hg0]
  have e1 : (cost.rows : Int) - 1 = ((cost.rows - 1 : Nat) : Int) := by omega
  rw [e1, forEach_range]
  have hloop := path_loop cost lsc st.1 hK ⟨h1, h2⟩
    (fun r c hr hc => by rw [h6 r c (by omega) hr hc]; rfl) start hslt (cost.rows - 1) (by omega)
  rw [hloop]
  congr 1
  · rw [List.map_map]
    apply List.map_congr_left
    intro j hj
    have : j < cost.rows := List.mem_range.mp hj
    simp only [Function.comp]
    rw [if_pos (by omega)]
  · have h0 : Py.idx cost.rows 0 = 0 := idx_nat _ 0
    simp only [Py.Arr2.get2, idx_nat, h3, h4, h0]
    rw [h5 0 start (by omega) (by omega) hslt]

end


/-! ### what the equivalence buys: C01 for the translated kernel itself -/
section
variable {α : Type} [AddCommGroup α] [LinearOrder α] [IsOrderedAddMonoid α]

/-- **C01 about the code as translated**: for every cost table (T ≥ 1 points, K ≥ 1 clusters) and every non-negative
switching cost, the function translated from `assign_point_cluster_labels` returns one label in `[0, K)` per point,
reports the total cost of exactly that labelling, and no labelling of the `K^T` candidates is cheaper. -/
theorem translated_kernel_optimal (cost : Py.Arr2 α) (sov : Py.ScalarOrVec α)
    (hT : 0 < cost.rows) (hK : 0 < cost.cols)
    (hb : Viterbi.BetaNonneg (ptsOf cost (kernelBeta cost sov))) :
    ∃ labels : List Nat,
      (Gen.assign_point_cluster_labels cost sov).1 = labels.map (fun (c : Nat) => (c : Int)) ∧
      Viterbi.ValidLabels cost.cols cost.rows labels ∧
      (Gen.assign_point_cluster_labels cost sov).2
        = Viterbi.totalCost (ptsOf cost (kernelBeta cost sov)) labels ∧
      ∀ q, Viterbi.ValidLabels cost.cols cost.rows q →
        (Gen.assign_point_cluster_labels cost sov).2 ≤ Viterbi.totalCost (ptsOf cost (kernelBeta cost sov)) q := by
  have hlen : (ptsOf cost (kernelBeta cost sov)).length = cost.rows := by simp [ptsOf]
  have hne : ptsOf cost (kernelBeta cost sov) ≠ [] := by
    intro h; rw [h] at hlen; simp at hlen; omega
  refine ⟨(Viterbi.viterbi cost.cols (ptsOf cost (kernelBeta cost sov))).1, ?_, ?_, ?_, ?_⟩
  · rw [assign_point_cluster_labels_eq cost sov hT hK]
  · exact ⟨by rw [Viterbi.viterbi_length _ _ hne, hlen], Viterbi.viterbi_labels_in_range _ hK _⟩
  · rw [assign_point_cluster_labels_eq cost sov hT hK]
    exact Viterbi.viterbi_cost_is_cost_of_path _ hK _ hne hb
  · intro q hq
    rw [assign_point_cluster_labels_eq cost sov hT hK]
    exact Viterbi.viterbi_optimal _ hK _ hb q (by rw [hlen]; exact hq)

/-- a scalar switching cost `b` reaches the kernel as the constant vector `b` (`np.zeros(T) + b`). -/
theorem kernelBeta_scalar (cost : Py.Arr2 α) (b : α) (i : Nat) :
    (kernelBeta cost (.scalar b)).get i = b := by
  simp [kernelBeta, Py.broadcastAdd, Py.Arr1.addScalar, Py.Arr1.const]

/-- a vector switching cost reaches the kernel unchanged -/
theorem kernelBeta_vec (cost : Py.Arr2 α) (a : Py.Arr1 α) (i : Nat) :
    (kernelBeta cost (.vec a)).get i = a.get i := by
  simp [kernelBeta, Py.broadcastAdd, Py.Arr1.add, Py.Arr1.const]

end

end FastTicc.Translated

/-
Property C19 — caller-owned data is never modified (write-set skeleton in the heap model;
that the model lists every write of the real code is what the byte snapshots check).
Property theorems only; helper lemmas live in `FastTicc/Proofs/Heap.lean`.
-/
import FastTicc.Model.Heap
import FastTicc.Model.Numeric
import FastTicc.Proofs.Heap

namespace FastTicc.Heap

/-- the caller-owned objects a state refers to: the training data and the argument bundle
(with its possibly array-valued sparsity weight and switching cost). -/
def callerOwned (h : Heap) (s : Nat) : Option (Arr × Args) :=
  (h.state? s).map (fun st => (st.data, h.argsOf st.args))

/-- no modelled operation writes to caller-owned objects: after any phase, every state that
existed before still refers to the same data array (same identity, same content) and the same
argument values, and the returned state refers to the caller's own objects, not copies. -/
theorem phases_frame_caller_owned (h : Heap) (s : Nat) (moves : List (List Nat))
    (newLabels : List Nat) (cost : Nat) (t : Nat) (ht : t < h.states.length) :
    callerOwned (repopPhase h s moves).2 t = callerOwned h t ∧
    callerOwned (statsPhase h s).2 t = callerOwned h t ∧
    callerOwned (optPhase h s).2 t = callerOwned h t ∧
    callerOwned (relabelPhase h s newLabels cost).2 t = callerOwned h t :=
  ⟨(repopPhase_grow h s moves).callerOwned ht, (statsPhase_grow h s).callerOwned ht,
    (optPhase_grow h s).callerOwned ht, (relabelPhase_grow h s newLabels cost).callerOwned ht⟩

theorem assign_frame_caller_owned (h : Heap) (s : Nat) (lab : Nat × List Nat) (t : Nat) :
    callerOwned (assign h s lab) t = callerOwned h t :=
  (assign_shape h s lab).callerOwned t

/-- the argument cells themselves are never written (only appended to by copies). -/
theorem args_cells_immutable (h : Heap) (s : Nat) (moves : List (List Nat))
    (newLabels : List Nat) (cost : Nat) (a : Nat) (ha : a < h.args.length) :
    (repopPhase h s moves).2.args[a]? = h.args[a]? ∧
    (statsPhase h s).2.args[a]? = h.args[a]? ∧
    (optPhase h s).2.args[a]? = h.args[a]? ∧
    (relabelPhase h s newLabels cost).2.args[a]? = h.args[a]? ∧
    (deepState true h s).2.args[a]? = h.args[a]? := by
  refine ⟨?_, ?_, ?_, ?_, deepState_args true h s ha⟩
  · rw [(repopPhase_grow h s moves).args]
  · rw [(statsPhase_grow h s).args]
  · rw [(optPhase_grow h s).args]
  · rw [(relabelPhase_grow h s newLabels cost).args]

end FastTicc.Heap

namespace FastTicc.Numeric
open FastTicc.Index

variable {α : Type} [Add α] [Sub α] [Neg α] [Zero α] [LT α] [DecidableLT α]

/-- `_reconstruct_optimized_matrix`: the in-place (`copy=False`) floor filter is applied to the
matrix `reinflate_matrix` has just allocated; as a function of the solver's compressed result it
is a pure map, so neither the compressed result nor any caller array is written. -/
def reconstruct (eps : α) (v : List α) (r c : Nat) : α := floorFilter eps (reinflate v r c)

/-- with no floor requested the reconstruction is exactly the re-inflated matrix. -/
theorem reconstruct_eps_zero_pointwise (v : List α) (r c : Nat)
    (h : ∀ x : α, ¬ (x < 0 ∧ -(0 : α) < x)) : reconstruct 0 v r c = reinflate v r c := by
  unfold reconstruct floorFilter
  exact if_neg (h _)

end FastTicc.Numeric

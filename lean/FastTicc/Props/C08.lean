/-
Property C08 — cluster repopulation conserves points and never starves a donor.
Property theorems only; helper lemmas live in `FastTicc/Proofs/Repop.lean`.
Quantified over: every labelling with labels `< K`, every `m ≥ 1`, every spread
function into a linear order, every admissible `random.sample` oracle (`ValidPick`),
every iteration order of the needy set (`order.Perm (needy K labels)`).
-/
import FastTicc.Model.Repop
import FastTicc.Proofs.Repop
import Mathlib.Order.Defs.LinearOrder

namespace FastTicc.Repop

def AllBelow (K : Nat) (labels : List Nat) : Prop := ∀ l ∈ labels, l < K

-- Several statements carry hypotheses (`hK`, `hn`) that their proofs turn out not to need;
-- they are kept exactly as stated.
set_option linter.unusedVariables false

/-- total number of refills the eligible donors can serve: `Σ (⌊size/m⌋ - 1)`. -/
def capacity {α : Type} [LT α] [DecidableLT α] (spread : Nat → α) (K m : Nat) (labels : List Nat) : Nat :=
  ((rankedDonors spread K m labels).map (fun d => size labels d / m - 1)).sum

section
variable {α : Type} [LT α] [DecidableLT α]
variable (K m : Nat) (spread : Nat → α) (pick : Nat → Nat → List Nat) (order labels labels' : List Nat)

/-- no cluster under 2 points ⇒ the very same labelling comes back. -/
theorem repop_noop (h : needy K labels = []) :
    repopulate K m spread pick order labels = some labels := by
  simp [repopulate, h]

/-- error ⇔ more needy clusters than the donors' total capacity. -/
theorem repop_error_iff (hm : 1 ≤ m) (hK : AllBelow K labels) (hp : ValidPick m pick)
    (ho : order.Perm (needy K labels)) :
    repopulate K m spread pick order labels = none ↔
      capacity spread K m labels < (needy K labels).length := by
  rw [repopulate_eq spread m pick ho,
    refill_none_iff hm hp order _ _ _ (inv_init spread hm ho), length_donorSeq, ho.length_eq]
  exact Iff.rfl

/-- in particular: when no cluster holds at least `2m` points and some cluster is needy, it raises. -/
theorem repop_error_of_no_donor (hm : 1 ≤ m) (hK : AllBelow K labels) (hp : ValidPick m pick)
    (ho : order.Perm (needy K labels)) (hn : needy K labels ≠ [])
    (hd : ∀ k, k < K → size labels k < 2 * m) :
    repopulate K m spread pick order labels = none := by
  rw [repop_error_iff K m spread pick order labels hm hK hp ho]
  have hnil : rankedDonors spread K m labels = [] := by
    refine List.eq_nil_iff_forall_not_mem.mpr (fun d hmem => ?_)
    have h1 := (mem_rankedDonors spread K m labels d).mp hmem
    have h2 := hd d h1.1
    omega
  simp only [capacity, hnil, List.map_nil, List.sum_nil]
  exact List.length_pos_iff.mpr hn

/-- every point still has exactly one label in `[0,K)`. -/
theorem repop_conserves (hm : 1 ≤ m) (hK : AllBelow K labels) (hp : ValidPick m pick)
    (ho : order.Perm (needy K labels))
    (h : repopulate K m spread pick order labels = some labels') :
    labels'.length = labels.length ∧ AllBelow K labels' := by
  have S := repopulate_spec spread hm hp ho h
  refine ⟨S.len, ?_⟩
  intro l hl
  obtain ⟨i, hi⟩ := List.mem_iff_getElem?.mp hl
  by_cases heq : labels'[i]? = labels[i]?
  · exact hK l (List.mem_iff_getElem?.mpr ⟨i, heq ▸ hi⟩)
  · obtain ⟨a, b, _, hb, _, hbo, _⟩ := S.moved i heq
    rw [hi] at hb
    cases hb
    exact ((mem_needy K labels l).mp (ho.mem_iff.mp hbo)).1

/-- every cluster that had fewer than 2 points gains exactly `m` (so has at least `m`). -/
theorem repop_recipients (hm : 1 ≤ m) (hK : AllBelow K labels) (hp : ValidPick m pick)
    (ho : order.Perm (needy K labels))
    (h : repopulate K m spread pick order labels = some labels') :
    ∀ e ∈ needy K labels, size labels' e = size labels e + m := by
  have S := repopulate_spec spread hm hp ho h
  exact fun e he => S.recip e (ho.mem_iff.mpr he)

/-- every cluster that gave points away had at least `2m` before, keeps at least `m`,
and gave a multiple of `m`. -/
theorem repop_donors (hm : 1 ≤ m) (hK : AllBelow K labels) (hp : ValidPick m pick)
    (ho : order.Perm (needy K labels))
    (h : repopulate K m spread pick order labels = some labels') :
    ∀ d, size labels' d < size labels d →
      2 * m ≤ size labels d ∧ m ≤ size labels' d ∧ ∃ t, size labels d = size labels' d + t * m := by
  have S := repopulate_spec spread hm hp ho h
  intro d hlt
  by_cases hdo : d ∈ order
  · have := S.recip d hdo
    omega
  · by_cases hdr : d ∈ rankedDonors spread K m labels
    · obtain ⟨h1, t, ht⟩ := S.donor d hdr
      exact ⟨((mem_rankedDonors spread K m labels d).mp hdr).2, h1, t, ht⟩
    · have := S.other d hdo hdr
      omega

/-- points move only from a donor (≥ 2m) into a previously under-populated cluster. -/
theorem repop_moves_only_donor_to_needy (hm : 1 ≤ m) (hK : AllBelow K labels)
    (hp : ValidPick m pick) (ho : order.Perm (needy K labels))
    (h : repopulate K m spread pick order labels = some labels') :
    ∀ i : Nat, labels'[i]? ≠ labels[i]? →
      ∃ a b, labels[i]? = some a ∧ labels'[i]? = some b ∧
        2 * m ≤ size labels a ∧ b ∈ needy K labels := by
  have S := repopulate_spec spread hm hp ho h
  intro i hi
  obtain ⟨a, b, ha, hb, har, hbo, _⟩ := S.moved i hi
  exact ⟨a, b, ha, hb, ((mem_rankedDonors spread K m labels a).mp har).2, ho.mem_iff.mp hbo⟩

/-- all other clusters are untouched: a cluster that is not needy and did not shrink has
exactly its old member list. -/
theorem repop_bystanders_untouched (hm : 1 ≤ m) (hK : AllBelow K labels)
    (hp : ValidPick m pick) (ho : order.Perm (needy K labels))
    (h : repopulate K m spread pick order labels = some labels') :
    ∀ k, k ∉ needy K labels → size labels k ≤ size labels' k →
      members labels' k = members labels k := by
  have S := repopulate_spec spread hm hp ho h
  intro k hk hle
  unfold members
  rw [S.len]
  apply List.filter_congr
  intro i _
  by_cases heq : labels'[i]? = labels[i]?
  · rw [heq]
  · obtain ⟨a, b, ha, hb, _, hbo, hlt⟩ := S.moved i heq
    have hak : a ≠ k := fun h => by subst h; omega
    have hbk : b ≠ k := fun h => hk (h ▸ ho.mem_iff.mp hbo)
    have h1 : (some b == some k) = false := by simpa using hbk
    have h2 : (some a == some k) = false := by simpa using hak
    rw [ha, hb, h1, h2]

/-- the `pop()` branch of `_find_point_donor` is dead when every candidate has ≥ 2m points … -/
theorem findDonor_dead_branch (sz : Nat → Nat) (rem : List Nat) (h : ∀ d ∈ rem, 2 * m ≤ sz d) :
    findDonor sz m rem =
      match rem with
      | [] => none
      | d :: rest => if sz d < 3 * m then some (d, rest) else some (d, d :: rest) := by
  cases rem with
  | nil => exact findDonor_nil sz m
  | cons d rest => exact findDonor_cons_of_le sz m d rest (h d List.mem_cons_self)

/-- … and that is an invariant of the recipient loop: whenever a donor is looked for, every
remaining candidate still has at least `2m` points (so the dead branch is never reached
from `repopulate_empty_clusters`).  Stated on the list of donors actually used. -/
theorem repop_used_donors_eligible (hm : 1 ≤ m) (hK : AllBelow K labels) (hp : ValidPick m pick)
    (ho : order.Perm (needy K labels)) :
    ∀ d ∈ donorsUsed K m spread pick order labels, d ∈ rankedDonors spread K m labels := by
  intro d hd
  rw [donorsUsed_eq spread m pick ho,
    refillDonors_eq hm hp order _ _ _ (inv_init spread hm ho)] at hd
  have hd' := List.mem_of_mem_take hd
  simp only [donorSeq, List.mem_flatMap, List.mem_replicate] at hd'
  obtain ⟨a, ha, _, rfl⟩ := hd'
  exact ha

/-- donors are taken in ranking order, each repeated to capacity, exactly `m` points per refill. -/
theorem repop_donor_order (hm : 1 ≤ m) (hK : AllBelow K labels) (hp : ValidPick m pick)
    (ho : order.Perm (needy K labels)) (hn : needy K labels ≠ []) :
    donorsUsed K m spread pick order labels =
      (((rankedDonors spread K m labels).flatMap
          (fun d => List.replicate (size labels d / m - 1) d)).take order.length) := by
  rw [donorsUsed_eq spread m pick ho,
    refillDonors_eq hm hp order _ _ _ (inv_init spread hm ho)]
  rfl

/-- for `m ≥ 2` the result needs no further repopulation (consecutive iterations). -/
theorem repop_idempotent (hm : 2 ≤ m) (hK : AllBelow K labels) (hp : ValidPick m pick)
    (ho : order.Perm (needy K labels))
    (h : repopulate K m spread pick order labels = some labels') :
    needy K labels' = [] := by
  have hm1 : 1 ≤ m := by omega
  have S := repopulate_spec spread hm1 hp ho h
  unfold needy
  rw [List.filter_eq_nil_iff]
  intro k hkK
  rw [List.mem_range] at hkK
  rw [decide_eq_true_iff]
  show ¬ size labels' k < 2
  by_cases hn : k ∈ needy K labels
  · have := S.recip k (ho.mem_iff.mpr hn)
    omega
  · have hko : k ∉ order := fun h => hn (ho.mem_iff.mp h)
    have h2 : ¬ size labels k < 2 := fun h => hn ((mem_needy K labels k).mpr ⟨hkK, h⟩)
    by_cases hdr : k ∈ rankedDonors spread K m labels
    · have := (S.donor k hdr).1
      omega
    · have := S.other k hko hdr
      omega
end

section ranking
variable {α : Type} [LinearOrder α]

/-- the ranking: exactly the clusters with ≥ 2m points, each once, by decreasing spread,
ties in index order (Python's stable `sorted(..., reverse=True)`). -/
theorem rankedDonors_spec (spread : Nat → α) (K m : Nat) (labels : List Nat) :
    (∀ d, d ∈ rankedDonors spread K m labels ↔ d < K ∧ 2 * m ≤ size labels d) ∧
    (rankedDonors spread K m labels).Nodup ∧
    (rankedDonors spread K m labels).Pairwise
      (fun a b => spread b < spread a ∨ (spread a = spread b ∧ a < b)) := by
  exact ⟨mem_rankedDonors spread K m labels, rankedDonors_nodup spread K m labels,
    rankedDonors_sorted spread K m labels⟩
end ranking

/-- non-vacuity: a concrete case with two needy clusters served by two donors in spread order. -/
example :
    let labels := [0,0,0,0,0,0,0, 1,1,1,1, 2, 4,4]
    let spread : Nat → Int := fun k => [5, 9, 0, 0, 1].getD k 0
    let pick : Nat → Nat → List Nat := fun _ _ => [0, 1]
    needy 5 labels = [2, 3] ∧ rankedDonors spread 5 2 labels = [1, 0] ∧
    repopulate 5 2 spread pick [2, 3] labels = some [3,3,0,0,0,0,0, 2,2,1,1, 2, 4,4] := by
  intro labels spread pick
  have h1 : needy 5 labels = [2, 3] := by decide
  have h2 : rankedDonors spread 5 2 labels = [1, 0] := by decide
  refine ⟨h1, h2, ?_⟩
  unfold repopulate
  rw [if_neg (by rw [h1]; decide), h2]
  -- first refill: donor 1 (size 4 < 3·2, retired afterwards) gives points 7, 8 to cluster 2
  have f1 : findDonor (size labels) 2 [1, 0] = some (1, [0]) := by
    rw [findDonor_cons_of_le _ _ _ _ (by decide)]; decide
  rw [refill, f1]
  have e1 : movePoints labels 1 2 (pick 0 (size labels 1)) =
      [0,0,0,0,0,0,0, 2,2,1,1, 2, 4,4] := by decide
  simp only [e1]
  -- second refill: donor 0 (size 7 ≥ 3·2, kept) gives points 0, 1 to cluster 3
  have f2 : findDonor (size [0,0,0,0,0,0,0, 2,2,1,1, 2, 4,4]) 2 [0] = some (0, [0]) := by
    rw [findDonor_cons_of_le _ _ _ _ (by decide)]; decide
  rw [refill, f2]
  simp only [refill]
  decide

end FastTicc.Repop

/-
Property C08 — cluster repopulation conserves points and never starves a donor.
Property theorems only; helper lemmas live in `FastTicc/Proofs/Repop.lean`.
Quantified over: every labelling with labels `< K`, every `m ≥ 1`, every spread
function into a linear order, every admissible `random.sample` oracle (`ValidPick`),
every iteration order of the needy set (`order.Perm (needy K labels)`).
-/
import FastTicc.Model.Repop
import FastTicc.Proofs.Repop
import Mathlib.Order.Defs.LinearOrder

namespace FastTicc.Repop

def AllBelow (K : Nat) (labels : List Nat) : Prop := ∀ l ∈ labels, l < K

/-- total number of refills the eligible donors can serve: `Σ (⌊size/m⌋ - 1)`. -/
def capacity {α : Type} [LT α] [DecidableLT α] (spread : Nat → α) (K m : Nat) (labels : List Nat) : Nat :=
  ((rankedDonors spread K m labels).map (fun d => size labels d / m - 1)).sum

section
variable {α : Type} [LT α] [DecidableLT α]
variable (K m : Nat) (spread : Nat → α) (pick : Nat → Nat → List Nat) (order labels labels' : List Nat)

/-- no cluster under 2 points ⇒ the very same labelling comes back. -/
theorem repop_noop (h : needy K labels = []) :
    repopulate K m spread pick order labels = some labels := by
  sorry

/-- error ⇔ more needy clusters than the donors' total capacity. -/
theorem repop_error_iff (hm : 1 ≤ m) (hK : AllBelow K labels) (hp : ValidPick m pick)
    (ho : order.Perm (needy K labels)) :
    repopulate K m spread pick order labels = none ↔
      capacity spread K m labels < (needy K labels).length := by
  sorry

/-- in particular: when no cluster holds at least `2m` points and some cluster is needy, it raises. -/
theorem repop_error_of_no_donor (hm : 1 ≤ m) (hK : AllBelow K labels) (hp : ValidPick m pick)
    (ho : order.Perm (needy K labels)) (hn : needy K labels ≠ [])
    (hd : ∀ k, k < K → size labels k < 2 * m) :
    repopulate K m spread pick order labels = none := by
  sorry

/-- every point still has exactly one label in `[0,K)`. -/
theorem repop_conserves (hm : 1 ≤ m) (hK : AllBelow K labels) (hp : ValidPick m pick)
    (ho : order.Perm (needy K labels))
    (h : repopulate K m spread pick order labels = some labels') :
    labels'.length = labels.length ∧ AllBelow K labels' := by
  sorry

/-- every cluster that had fewer than 2 points gains exactly `m` (so has at least `m`). -/
theorem repop_recipients (hm : 1 ≤ m) (hK : AllBelow K labels) (hp : ValidPick m pick)
    (ho : order.Perm (needy K labels))
    (h : repopulate K m spread pick order labels = some labels') :
    ∀ e ∈ needy K labels, size labels' e = size labels e + m := by
  sorry

/-- every cluster that gave points away had at least `2m` before, keeps at least `m`,
and gave a multiple of `m`. -/
theorem repop_donors (hm : 1 ≤ m) (hK : AllBelow K labels) (hp : ValidPick m pick)
    (ho : order.Perm (needy K labels))
    (h : repopulate K m spread pick order labels = some labels') :
    ∀ d, size labels' d < size labels d →
      2 * m ≤ size labels d ∧ m ≤ size labels' d ∧ ∃ t, size labels d = size labels' d + t * m := by
  sorry

/-- points move only from a donor (≥ 2m) into a previously under-populated cluster. -/
theorem repop_moves_only_donor_to_needy (hm : 1 ≤ m) (hK : AllBelow K labels)
    (hp : ValidPick m pick) (ho : order.Perm (needy K labels))
    (h : repopulate K m spread pick order labels = some labels') :
    ∀ i : Nat, labels'[i]? ≠ labels[i]? →
      ∃ a b, labels[i]? = some a ∧ labels'[i]? = some b ∧
        2 * m ≤ size labels a ∧ b ∈ needy K labels := by
  sorry

/-- all other clusters are untouched: a cluster that is not needy and did not shrink has
exactly its old member list. -/
theorem repop_bystanders_untouched (hm : 1 ≤ m) (hK : AllBelow K labels)
    (hp : ValidPick m pick) (ho : order.Perm (needy K labels))
    (h : repopulate K m spread pick order labels = some labels') :
    ∀ k, k ∉ needy K labels → size labels k ≤ size labels' k →
      members labels' k = members labels k := by
  sorry

/-- the `pop()` branch of `_find_point_donor` is dead when every candidate has ≥ 2m points … -/
theorem findDonor_dead_branch (sz : Nat → Nat) (rem : List Nat) (h : ∀ d ∈ rem, 2 * m ≤ sz d) :
    findDonor sz m rem =
      match rem with
      | [] => none
      | d :: rest => if sz d < 3 * m then some (d, rest) else some (d, d :: rest) := by
  sorry

/-- … and that is an invariant of the recipient loop: whenever a donor is looked for, every
remaining candidate still has at least `2m` points (so the dead branch is never reached
from `repopulate_empty_clusters`).  Stated on the list of donors actually used. -/
theorem repop_used_donors_eligible (hm : 1 ≤ m) (hK : AllBelow K labels) (hp : ValidPick m pick)
    (ho : order.Perm (needy K labels)) :
    ∀ d ∈ donorsUsed K m spread pick order labels, d ∈ rankedDonors spread K m labels := by
  sorry

/-- donors are taken in ranking order, each repeated to capacity, exactly `m` points per refill. -/
theorem repop_donor_order (hm : 1 ≤ m) (hK : AllBelow K labels) (hp : ValidPick m pick)
    (ho : order.Perm (needy K labels)) (hn : needy K labels ≠ []) :
    donorsUsed K m spread pick order labels =
      (((rankedDonors spread K m labels).flatMap
          (fun d => List.replicate (size labels d / m - 1) d)).take order.length) := by
  sorry

/-- for `m ≥ 2` the result needs no further repopulation (consecutive iterations). -/
theorem repop_idempotent (hm : 2 ≤ m) (hK : AllBelow K labels) (hp : ValidPick m pick)
    (ho : order.Perm (needy K labels))
    (h : repopulate K m spread pick order labels = some labels') :
    needy K labels' = [] := by
  sorry
end

section ranking
variable {α : Type} [LinearOrder α]

/-- the ranking: exactly the clusters with ≥ 2m points, each once, by decreasing spread,
ties in index order (Python's stable `sorted(..., reverse=True)`). -/
theorem rankedDonors_spec (spread : Nat → α) (K m : Nat) (labels : List Nat) :
    (∀ d, d ∈ rankedDonors spread K m labels ↔ d < K ∧ 2 * m ≤ size labels d) ∧
    (rankedDonors spread K m labels).Nodup ∧
    (rankedDonors spread K m labels).Pairwise
      (fun a b => spread b < spread a ∨ (spread a = spread b ∧ a < b)) := by
  sorry
end ranking

/-- non-vacuity: a concrete case with two needy clusters served by two donors in spread order. -/
example :
    let labels := [0,0,0,0,0,0,0, 1,1,1,1, 2, 4,4]
    let spread : Nat → Int := fun k => [5, 9, 0, 0, 1].getD k 0
    let pick : Nat → Nat → List Nat := fun _ _ => [0, 1]
    needy 5 labels = [2, 3] ∧ rankedDonors spread 5 2 labels = [1, 0] ∧
    repopulate 5 2 spread pick [2, 3] labels = some [3,3,0,0,0,0,0, 2,2,1,1, 2, 4,4] := by
  sorry

end FastTicc.Repop

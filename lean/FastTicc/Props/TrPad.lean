/-
TRANSLATED CODE = MODEL (pad_missing_labels, property C04).  `Generated/Kernels.lean` is rewritten from the Python AST of
`$REPO/src/fast_ticc` by `harness/py2lean.py` on every run; the theorems below are about those generated
definitions and prove, for ALL inputs, that they compute what the hand-written model computes - the model the
property theorems are about.  They only keep checking while the source still says what the model says.
-/
import FastTicc.Generated.Kernels
import FastTicc.Proofs.Translated
open FastTicc FastTicc.PyLemmas

namespace FastTicc.Translated

theorem pad_missing_labels_eq (labels : List Int) (w : Nat) (hw : 1 ≤ w) :
    Gen.pad_missing_labels labels (w : Int) = .ok (Stack.padMissing labels w) := by
  have hfront : Py.intOfRat (Py.trueDiv ((w : Int) - 1) 2) = ((Stack.frontLen w : Nat) : Int) := by
    have h1 : (w : Int) - 1 = ((w - 1 : Nat) : Int) := by omega
    rw [h1, intOfRat_trueDiv_two]; rfl
  have hback : (w : Int) - 1 - ((Stack.frontLen w : Nat) : Int) = ((Stack.backLen w : Nat) : Int) := by
    unfold Stack.backLen Stack.frontLen; omega
  have hlen : Stack.frontLen w + Stack.backLen w + 1 = w := by
    unfold Stack.backLen Stack.frontLen; omega
  unfold Gen.pad_missing_labels
  simp only [hfront, hback, repeatList_single]
  unfold Stack.padMissing
  have hc : Py.len (List.replicate (Stack.frontLen w) (-1 : Int) ++ labels ++ List.replicate (Stack.backLen w) (-1))
      = Py.len labels + (w : Int) - 1 := by
    simp [Py.len]; omega
  simp only [List.append_assoc] at hc
  simp only [List.append_assoc, hc, decide_true, Bool.not_true]
  rfl

end FastTicc.Translated

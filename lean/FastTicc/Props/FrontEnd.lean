/-
Front-end theorems: the composed models of `ticc_labels` and `ticc_joint_labels`
(`FrontEnd.single`, `FrontEnd.joint`) — stacking ∘ whole fit ∘ split ∘ pad — return one label per
input row with the unlabeled margin exactly where C04 says, for every data set, every oracle and
every limit; the joint front end hands the kernel exactly the concatenation of the per-series
stackings (C10), and the switching cost that reaches the kernel is `beta` on within-series pairs and
`0` on boundary pairs when the mask is applied (`masked = true`), the caller's `beta` everywhere as the
code is (`masked = false`, known finding K1).
-/
import FastTicc.Model.FrontEnd
import FastTicc.Props.Final
import FastTicc.Props.C04
import FastTicc.Props.C10
import FastTicc.Props.C07mask
import FastTicc.Props.C07

namespace FastTicc.FrontEnd
open FastTicc FastTicc.Stack FastTicc.Viterbi

variable {α : Type} [Field α] [LinearOrder α] [IsStrictOrderedRing α]

theorem nat_le_sum_of_mem : ∀ (l : List Nat) (x : Nat), x ∈ l → x ≤ l.sum := by
  intro l
  induction l with
  | nil => intro x hx; cases hx
  | cons y ys ih =>
    intro x hx
    rw [List.sum_cons]
    rcases List.mem_cons.mp hx with rfl | h
    · omega
    · have := ih x h; omega

/-- SINGLE front end: exactly one label list, with one entry per input row; the first `⌊(W−1)/2⌋`
and the last `(W−1) − ⌊(W−1)/2⌋` entries are the marker `-1`, every other entry is a label in
`[0, K)` — and that middle part is the labelling the fit returned. -/
theorem single_labels_shape (a : Args α) (orc : Run.Oracles α) (init : List Nat)
    (data : List (List α)) (hW : 1 ≤ a.W) (hT : a.W ≤ data.length) (hK : 0 < a.K) (hl : 1 ≤ a.limit)
    (out : Out α) (h : single a orc init data = .ok out) :
    ∃ l, out.labels = [l] ∧ l.length = data.length ∧
      (∀ i, i < frontLen a.W → l[i]? = some (-1)) ∧
      (∀ i, i < backLen a.W → l[frontLen a.W + (data.length + 1 - a.W) + i]? = some (-1)) ∧
      (∀ i, i < data.length + 1 - a.W →
        ∃ c : Nat, l[frontLen a.W + i]? = some (c : Int) ∧ c < a.K ∧ out.report.labels[i]? = some c) := by
  unfold single at h
  dsimp only at h
  set stacked := stack data a.W with hst
  set betas := (List.range stacked.length).map a.beta
  cases hf : Final.fit (runInput a stacked betas) orc a.logT a.thr a.biased a.limit init with
  | error e => rw [hf] at h; cases h
  | ok rep =>
    rw [hf] at h
    cases h
    have hlen : stacked.length = data.length + 1 - a.W := stack_rows data a.W
    have hTpos : 0 < (runInput a stacked betas).T := by
      show 0 < stacked.length
      omega
    obtain ⟨hl1, hl2⟩ := Final.report_labels_valid (runInput a stacked betas) orc a.logT a.thr a.biased
      hK hTpos a.limit hl init rep hf
    have hl1' : rep.labels.length = data.length + 1 - a.W := by rw [hl1]; exact hlen
    have hmap : (rep.labels.map Int.ofNat).length = data.length + 1 - a.W := by
      rw [List.length_map, hl1']
    refine ⟨_, rfl, ?_, ?_, ?_, ?_⟩
    · rw [pad_length _ a.W hW, hmap]; omega
    · intro i hi; exact pad_front _ a.W i hi
    · intro i hi
      have := pad_back (rep.labels.map Int.ofNat) a.W i hi
      rwa [hmap] at this
    · intro i hi
      have hi' : i < rep.labels.length := by rw [hl1']; exact hi
      refine ⟨rep.labels[i], ?_, hl2 _ (List.getElem_mem hi'), List.getElem?_eq_getElem hi'⟩
      rw [pad_middle _ a.W i (by rw [hmap]; exact hi), List.getElem?_map, List.getElem?_eq_getElem hi']
      rfl

/-- JOINT front end: one label list per input series, in input order, each as long as its own series
(series may differ in length), whose unpadded middles concatenated are the labelling the single fit
of the concatenated stackings returned. -/
theorem joint_labels_shape (masked : Bool) (a : Args α) (orc : Run.Oracles α) (init : List Nat)
    (series : List (List (List α))) (hW : 1 ≤ a.W) (hT : ∀ s ∈ series, a.W ≤ s.length)
    (hne : ∃ s ∈ series, a.W ≤ s.length) (hK : 0 < a.K) (hl : 1 ≤ a.limit)
    (out : Out α) (h : joint masked a orc init series = .ok out) :
    out.labels.map List.length = series.map List.length ∧
      (splitJoint (out.report.labels.map Int.ofNat)
        (series.map (fun s => stackedLen s.length a.W))).flatten = out.report.labels.map Int.ofNat ∧
      out.report.labels.length = (stackMulti series a.W).length ∧ ∀ c ∈ out.report.labels, c < a.K := by
  unfold joint at h
  dsimp only at h
  set stacked := stackMulti series a.W with hst
  set lens := series.map (fun s => stackedLen s.length a.W) with hlens
  cases hf : Final.fit (runInput a stacked (jointBetas masked a lens)) orc a.logT a.thr a.biased a.limit init with
  | error e => rw [hf] at h; cases h
  | ok rep =>
    rw [hf] at h
    cases h
    have hlen : stacked.length = lens.sum := by
      rw [hst, stackMulti_length]
    have hTpos : 0 < (runInput a stacked (jointBetas masked a lens)).T := by
      show 0 < stacked.length
      rw [hlen]
      obtain ⟨s, hs, hsl⟩ := hne
      have hmem : stackedLen s.length a.W ∈ lens := List.mem_map.mpr ⟨s, hs, rfl⟩
      have : 0 < stackedLen s.length a.W := by unfold stackedLen; omega
      exact Nat.lt_of_lt_of_le this (nat_le_sum_of_mem lens _ hmem)
    obtain ⟨hl1, hl2⟩ := Final.report_labels_valid (runInput a stacked (jointBetas masked a lens)) orc
      a.logT a.thr a.biased hK hTpos a.limit hl init rep hf
    have hl1' : rep.labels.length = stacked.length := hl1
    have hj : (rep.labels.map Int.ofNat).length = lens.sum := by rw [List.length_map, hl1', hlen]
    refine ⟨?_, (joint_result_parts _ lens a.W hj).1, hl1', hl2⟩
    have hTs : ∀ T ∈ series.map List.length, a.W ≤ T := by
      intro T hTm
      obtain ⟨s, hs, rfl⟩ := List.mem_map.mp hTm
      exact hT s hs
    have hlens' : lens = (series.map List.length).map (fun T => stackedLen T a.W) := by
      rw [hlens, List.map_map]; rfl
    show (splitAndPad (rep.labels.map Int.ofNat) lens a.W).map List.length = _
    rw [hlens']
    exact joint_result_lengths _ (series.map List.length) a.W hW hTs (by rw [← hlens']; exact hj)

omit [LinearOrder α] [IsStrictOrderedRing α] in
/-- the data the joint fit sees is the concatenation, in order, of the per-series stackings: no
window mixes rows of two series (C10 on the composed front end). -/
theorem joint_data_is_concatenation (a : Args α) (series : List (List (List α))) (betas : List α) :
    (runInput a (stackMulti series a.W) betas).data
      = dataFn ((series.map (fun s => stack s a.W)).flatten) := by
  rw [stackMulti_eq_flatten]
  rfl

omit [LinearOrder α] [IsStrictOrderedRing α] in
/-- the switching cost that reaches the kernel in a joint run.  With the mask applied it is `beta` on
every pair inside a series and `0` on every pair that straddles two series; as the code is
(`masked = false`) it is the caller's `beta` on every pair (known finding K1). -/
theorem jointBetas_spec (masked : Bool) (a : Args α) (lens : List Nat) (hpos : ∀ l ∈ lens, 0 < l)
    (i : Nat) (hi : i < lens.sum) :
    (jointBetas masked a lens)[i]? =
      some (if masked ∧ seriesOf lens i ≠ seriesOf lens (i + 1) ∧ i + 1 < lens.sum then 0 else a.beta i) := by
  have hb := maskTemplate_binary lens
  unfold jointBetas
  rw [List.getElem?_map, List.getElem?_range hi]
  simp only [Option.map_some]
  cases masked with
  | false => simp
  | true =>
    simp only [if_true, true_and]
    have hlen : (maskTemplate lens).length = lens.sum := maskTemplate_length lens
    have hget : (maskTemplate lens).getD i 1 = (maskTemplate lens)[i]'(by rw [hlen]; exact hi) := by
      rw [List.getD_eq_getElem?_getD, List.getElem?_eq_getElem (by rw [hlen]; exact hi)]
      rfl
    by_cases hlast : i + 1 < lens.sum
    · have hz := mask_zero_iff_boundary lens hpos i hlast
      by_cases hbd : seriesOf lens i ≠ seriesOf lens (i + 1)
      · have h0 : (maskTemplate lens)[i]? = some 0 := hz.mpr hbd
        rw [List.getElem?_eq_getElem (by rw [hlen]; exact hi)] at h0
        rw [hget, Option.some.inj h0]
        simp [hbd, hlast]
      · have h1 : (maskTemplate lens)[i]'(by rw [hlen]; exact hi) = 1 := by
          rcases hb _ (List.getElem_mem (by rw [hlen]; exact hi)) with h | h
          · exfalso
            apply hbd
            apply hz.mp
            rw [List.getElem?_eq_getElem (by rw [hlen]; exact hi), h]
          · exact h
        rw [hget, h1]
        simp [hbd]
    · have hi' : i = lens.sum - 1 := by omega
      have h1 := mask_last_one lens hpos (by omega)
      rw [← hi', List.getElem?_eq_getElem (by rw [hlen]; exact hi)] at h1
      rw [hget, Option.some.inj h1]
      simp [hlast]

omit [LinearOrder α] [IsStrictOrderedRing α] in
/-- with a scalar caller-side switching cost the masked per-pair vector of the front-end model is C07's
`jointBeta`. -/
theorem jointBetas_masked_scalar (a : Args α) (b : α) (hb : a.beta = fun _ => b) (lens : List Nat) :
    jointBetas true a lens = Joint.jointBeta b lens := by
  unfold jointBetas Joint.jointBeta
  apply List.ext_getElem
  · simp [maskTemplate_length]
  · intro i h1 h2
    simp only [List.length_map, List.length_range] at h1
    have hm : i < (maskTemplate lens).length := by rw [maskTemplate_length]; exact h1
    simp [hb, List.getD_eq_getElem?_getD, List.getElem?_eq_getElem hm]

omit [LinearOrder α] [IsStrictOrderedRing α] in
/-- a table built point by point over `range T` with the per-pair costs looked up in a list of length `T`
is the zip of its rows with that list. -/
theorem costPoints_eq_zip (inp : Run.Input α) (orc : Run.Oracles α) (s : Run.St α)
    (hlen : inp.betas.length = inp.T) :
    Run.costPoints inp orc s = withVectorBeta ((Run.costPoints inp orc s).map (·.1)) inp.betas := by
  unfold withVectorBeta
  apply List.ext_getElem
  · simp [Run.costPoints, hlen]
  · intro i h1 h2
    have hi : i < inp.T := by simpa [Run.costPoints] using h1
    have hb : i < inp.betas.length := by rw [hlen]; exact hi
    simp [Run.costPoints, List.getD_eq_getElem?_getD, List.getElem?_eq_getElem hb]

/-- JOINT FRONT END WITH THE MASK APPLIED (the documented behaviour): for a scalar switching cost `b ≥ 0`
the labelling a joint call returns minimises — over all labellings of the concatenated windows — the
assignment cost under the returned model plus `b` for every switch INSIDE a series, and the reported cost
is that value: labels at the end of one series and the start of the next are independent. -/
theorem joint_masked_within_optimal (a : Args α) (b : α) (hb0 : 0 ≤ b) (hb : a.beta = fun _ => b)
    (orc : Run.Oracles α) (init : List Nat) (series : List (List (List α)))
    (_hW : 1 ≤ a.W) (hT : ∀ s ∈ series, a.W ≤ s.length) (hne : series ≠ []) (hK : 0 < a.K) (hl : 1 ≤ a.limit)
    (out : Out α) (h : joint true a orc init series = .ok out) :
    let lens := series.map (fun s => stackedLen s.length a.W)
    ∃ rows : List (Nat → α), rows.length = lens.sum ∧
      out.report.cost = Joint.withinObjective rows b lens out.report.labels ∧
      ∀ q, q.length = lens.sum → (∀ l ∈ q, l < a.K) →
        out.report.cost ≤ Joint.withinObjective rows b lens q := by
  intro lens
  unfold joint at h
  dsimp only at h
  set stacked := stackMulti series a.W with hst
  set inp := runInput a stacked (jointBetas true a lens) with hinp
  have hlenS : stacked.length = lens.sum := by rw [hst, stackMulti_length]
  have hpos : ∀ n ∈ lens, 0 < n := by
    intro n hn
    obtain ⟨s, hs, rfl⟩ := List.mem_map.mp hn
    have := hT s hs
    unfold stackedLen; omega
  have hTpos : 0 < inp.T := by
    show 0 < stacked.length
    rw [hlenS]
    obtain ⟨s, hs⟩ := List.exists_mem_of_ne_nil series hne
    have hmem : stackedLen s.length a.W ∈ lens := List.mem_map.mpr ⟨s, hs, rfl⟩
    exact Nat.lt_of_lt_of_le (hpos _ hmem) (nat_le_sum_of_mem lens _ hmem)
  have hbl : inp.betas.length = inp.T := by
    show (jointBetas true a lens).length = stacked.length
    rw [hlenS]; simp [jointBetas]
  have hbnn : ∀ x ∈ inp.betas, 0 ≤ x := by
    intro x hx
    have : x ∈ Joint.jointBeta b lens := by rw [← jointBetas_masked_scalar a b hb lens]; exact hx
    exact Joint.masked_beta_nonneg b hb0 (maskTemplate lens) x this
  cases hf : Final.fit inp orc a.logT a.thr a.biased a.limit init with
  | error e => rw [hf] at h; cases h
  | ok rep =>
    rw [hf] at h
    cases h
    unfold Final.fit at hf
    cases hr : Run.run inp orc a.limit init with
    | error e => rw [hr] at hf; cases hf
    | ok o =>
      rw [hr] at hf
      cases hf
      obtain ⟨sFit, _, hlab, hcost, hopt⟩ := Run.run_returned_optimal inp orc hK hTpos hbnn a.limit hl init o hr
      set rows := (Run.costPoints inp orc sFit).map (·.1) with hrows
      have hz : Run.costPoints inp orc sFit = withVectorBeta rows (Joint.jointBeta b lens) := by
        rw [← jointBetas_masked_scalar a b hb lens]
        exact costPoints_eq_zip inp orc sFit hbl
      have hrl : rows.length = lens.sum := by
        rw [hrows, List.length_map, Run.costPoints_length]
        exact hlenS
      have hvalid := Final.report_labels_valid inp orc a.logT a.thr a.biased hK hTpos a.limit hl init
        (Final.report inp orc a.logT a.thr a.biased o) (by unfold Final.fit; rw [hr])
      refine ⟨rows, hrl, ?_, ?_⟩
      · show o.final.cost = _
        rw [hcost, hz]
        exact Joint.totalCost_masked_eq_within rows b lens hpos hrl.symm _
          (by rw [hrl]; exact hvalid.1.trans hlenS)
      · intro q hq1 hq2
        show o.final.cost ≤ _
        rw [hcost]
        have := hopt q (by rw [hq1]; exact hlenS.symm) hq2
        rw [hz] at this
        rw [hz, ← Joint.totalCost_masked_eq_within rows b lens hpos hrl.symm q (by rw [hrl]; exact hq1)]
        exact this

/-- non-vacuity: a concrete joint run over ℚ (two series of lengths 3 and 4, `W = 2`) returns label
lists of lengths 3 and 4 with the trailing marker. -/
example :
    let a : Args Rat := ⟨2, 2, 1, 3, fun _ => 1, false, 1/2, 1, 0, 0⟩
    let orc : Run.Oracles Rat := ⟨fun _ _ i j => if i = j then 1 else 0, fun _ _ => 0, fun _ _ => 0, fun _ => [], fun _ _ _ => []⟩
    (joint true a orc [0, 0, 1, 1, 1] [[[0], [1], [0]], [[9], [10], [9], [10]]]).toOption.map (·.labels)
      = some [[0, 0, -1], [1, 1, 1, -1]] := by
  decide +kernel

end FastTicc.FrontEnd

/-
TRANSLATED CODE = MODEL (`_find_point_donor` of cluster_maintenance.py, property C08).  `Generated/Kernels.lean` is rewritten
from the Python AST of `$REPO/src/fast_ticc` by `harness/py2lean.py` on every run; the theorem below is about that generated
definition.  The `while` loop - whose body returns from two places and pops the LAST candidate when the FIRST is too small -
is `Py.whileRet` with the list of remaining donors as state and `len(remaining_donors) + 1` as fuel; running out of fuel would
be the error "LoopFuelExhausted", and the theorem shows the function never returns it.
-/
import FastTicc.Generated.Kernels
import FastTicc.Proofs.Translated
import FastTicc.Model.Repop
open FastTicc FastTicc.PyLemmas

namespace FastTicc.Translated
section
variable {α : Type} [Zero α] [Add α] [Sub α] [Mul α] [Div α] [LT α] [DecidableLT α] [IntCast α]

/-- the model state `_find_point_donor` reads: cluster `k` has `sz k` points -/
def donorModelOf (K m : Nat) (sz : Nat → Nat) (cov : Nat → Py.Arr2 α) : Py.DonorModel α :=
  ⟨(m : Int), (List.range K).map (fun (k : Nat) => ⟨((sz k : Nat) : Int), cov k⟩)⟩

/-- what the loop leaves behind, in the model's terms -/
def loopResult : Option (Nat × List Nat) → Sum (Int × List Int) (List Int)
  | some (d, rest) => Sum.inl ((d : Int), rest.map (fun (k : Nat) => (k : Int)))
  | none => Sum.inr []

omit [Add α] [Sub α] [Mul α] [Div α] [LT α] [DecidableLT α] [IntCast α] in
theorem getItem_cluster_size (K m : Nat) (sz : Nat → Nat) (cov : Nat → Py.Arr2 α) (k : Nat) (hk : k < K) :
    (Py.getItem (donorModelOf K m sz cov).clusters (k : Int)).size = ((sz k : Nat) : Int) := by
  unfold Py.getItem donorModelOf
  simp [idx_nat, List.getD_eq_getElem?_getD, hk]

omit [Add α] [Sub α] [Mul α] [Div α] [LT α] [DecidableLT α] [IntCast α] in
/-- the loop of `_find_point_donor` is `Repop.findDonor`, for any fuel above the number of candidates -/
theorem find_loop (K m : Nat) (sz : Nat → Nat) (cov : Nat → Py.Arr2 α) :
    ∀ (n : Nat) (ids : List Nat), ids.length = n → (∀ y ∈ ids, y < K) → ∀ (fuel : Nat), n < fuel →
      Py.whileRet fuel
        (fun (st : List Int) => decide (Py.len st > (0 : Int)))
        (fun (st : List Int) =>
          (if decide ((Py.getItem (donorModelOf K m sz cov).clusters (Py.getItem st (0 : Int))).size
                ≥ (2 : Int) * (donorModelOf K m sz cov).min_cluster_size) = true then
            (if decide ((Py.getItem (donorModelOf K m sz cov).clusters (Py.getItem st (0 : Int))).size
                  < (3 : Int) * (donorModelOf K m sz cov).min_cluster_size) = true then
              Sum.inl (Py.getItem st (0 : Int), Py.popFirst st)
            else Sum.inl (Py.getItem st (0 : Int), st))
          else Sum.inr (Py.popLast st) : Sum (Int × List Int) (List Int)))
        (ids.map (fun (k : Nat) => (k : Int)))
      = some (loopResult (Repop.findDonor sz m ids)) := by
  intro n
  induction n using Nat.strong_induction_on with
  | _ n ih =>
    intro ids hlen hK fuel hfuel
    match ids, hlen, hK with
    | [], _, _ =>
      obtain ⟨f, rfl⟩ : ∃ f, fuel = f + 1 := ⟨fuel - 1, by omega⟩
      simp [Py.whileRet, Py.len, Repop.findDonor, loopResult]
    | d :: rest, hlen, hK =>
      obtain ⟨f, rfl⟩ : ∃ f, fuel = f + 1 := ⟨fuel - 1, by omega⟩
      have hd : d < K := hK d (by simp)
      have hcond : decide (Py.len ((d :: rest).map (fun (k : Nat) => (k : Int))) > (0 : Int)) = true := by
        simp [Py.len]
      have hfirst : Py.getItem ((d :: rest).map (fun (k : Nat) => (k : Int))) (0 : Int) = (d : Int) := by
        simp [Py.getItem, Py.idx]
      have hmin : (donorModelOf K m sz cov).min_cluster_size = (m : Int) := rfl
      unfold Py.whileRet
      rw [if_pos hcond]
      simp only [hfirst, getItem_cluster_size K m sz cov d hd, hmin]
      rw [Repop.findDonor]
      have h2 : Constants.donorFactorFind = 2 := rfl
      have h3 : Constants.retireFactor = 3 := rfl
      by_cases hbig : 2 * m ≤ sz d
      · have c1 : decide (((sz d : Nat) : Int) ≥ (2 : Int) * (m : Int)) = true := by
          apply decide_eq_true; omega
        rw [if_pos c1, h2, if_pos hbig]
        by_cases hret : sz d < 3 * m
        · have c2 : decide (((sz d : Nat) : Int) < (3 : Int) * (m : Int)) = true := by
            apply decide_eq_true; omega
          rw [if_pos c2, h3, if_pos hret]
          simp [loopResult, Py.popFirst]
        · have c2 : ¬ (decide (((sz d : Nat) : Int) < (3 : Int) * (m : Int)) = true) := by
            simp only [decide_eq_true_eq]; omega
          rw [if_neg c2, h3, if_neg hret]
          simp [loopResult]
      · have c1 : ¬ (decide (((sz d : Nat) : Int) ≥ (2 : Int) * (m : Int)) = true) := by
          simp only [decide_eq_true_eq]; omega
        rw [if_neg c1, h2, if_neg hbig]
        have hpop : Py.popLast ((d :: rest).map (fun (k : Nat) => (k : Int)))
            = ((d :: rest).dropLast).map (fun (k : Nat) => (k : Int)) := by
          unfold Py.popLast
          rw [List.map_dropLast]
        simp only [hpop]
        have hl' : ((d :: rest).dropLast).length < n := by
          simp only [List.length_dropLast, List.length_cons] at hlen ⊢; omega
        have hK' : ∀ y ∈ (d :: rest).dropLast, y < K := fun y hy => hK y (List.dropLast_subset _ hy)
        exact ih _ hl' _ rfl hK' f (by omega)

/-- what `_find_point_donor` returns, in the model's terms: the `RuntimeError` is `none` -/
def findResult : Option (Nat × List Nat) → Except String (Int × List Int)
  | some (d, rest) => .ok ((d : Int), rest.map (fun (k : Nat) => (k : Int)))
  | none => .error "RuntimeError"

omit [Add α] [Sub α] [Mul α] [Div α] [LT α] [DecidableLT α] [IntCast α] in
/-- **the translated `_find_point_donor` is `Repop.findDonor`** - for every cluster count, minimum size, size function and list
of candidate ids below the cluster count: the same donor, the same list of remaining candidates (the first candidate retired
when it cannot donate twice, the LAST one dropped when the first is too small - the pinned code's quirk, modelled literally),
`RuntimeError` exactly when the model has no donor, and never the fuel error. -/
theorem find_point_donor_eq (K m : Nat) (sz : Nat → Nat) (cov : Nat → Py.Arr2 α) (ids : List Nat) (hK : ∀ y ∈ ids, y < K) :
    Gen._find_point_donor (donorModelOf K m sz cov) (ids.map (fun (k : Nat) => (k : Int)))
      = findResult (Repop.findDonor sz m ids) := by
  unfold Gen._find_point_donor
  have hfuel : Int.toNat (Py.len (ids.map (fun (k : Nat) => (k : Int))) + (1 : Int)) = ids.length + 1 := by
    simp [Py.len]
  simp only [hfuel]
  rw [find_loop K m sz cov ids.length ids rfl hK (ids.length + 1) (by omega)]
  cases h : Repop.findDonor sz m ids with
  | none => simp [loopResult, findResult]; rfl
  | some p => obtain ⟨d, rest⟩ := p; simp [loopResult, findResult]; rfl
end
end FastTicc.Translated

/-
TRANSLATED CODE = MODEL (`check_convergence` of admm/solver.py, property C02: the stopping rule).  `Generated/Kernels.lean` is
rewritten from the Python AST of `$REPO/src/fast_ticc` by `harness/py2lean.py` on every run; the theorem below is about that
generated definition.  The Euclidean norm and `math.sqrt(x.size)` are function parameters (`normOf1`, `sqrtOfInt`); the local
alias `norm = np.linalg.norm` is resolved; the literal `0.0001` is the exact rational value of that double; `a <= b` on the
abstract scalar type is `not (b < a)`; the `if args.verbose:` block only logs.
-/
import FastTicc.Generated.Kernels
import FastTicc.Generated.Constants
import FastTicc.Model.Numeric
import FastTicc.Props.TrAdmmLoop
import Mathlib.Algebra.Order.Field.Basic
open FastTicc

namespace FastTicc.Translated
section
variable {α : Type} [Field α] [LinearOrder α]

/-- the additive slack of the rule: the double the source spells `0.0001`, exactly -/
def slackOf (α : Type) [Field α] : α := ((7378697629483821 : Int) : α) / ((73786976294838206464 : Int) : α)

/-- **the translated stopping rule is `Numeric.stopRule`** on the five norms the source computes - `‖x‖`, `‖z‖`, `‖ρu‖`,
`‖x − z‖`, `‖ρ(z − z_old)‖` - with `sqrt(len x)`, the two tolerances of the argument bundle and the slack `0.0001`. -/
theorem check_convergence_eq (normOf1 : Py.Arr1 α → α) (sqrtOfInt : Int → α) (args : Py.ADMMArgs α) (u x z zOld : Py.Arr1 α) :
    (Gen.check_convergence normOf1 sqrtOfInt args u x z zOld).1
      = Numeric.stopRule (sqrtOfInt (Py.Arr1.size x)) args.absolute_tolerance args.relative_tolerance (slackOf α)
          (normOf1 x) (normOf1 z) (normOf1 (Py.Arr1.scale args.rho u)) (normOf1 (Py.Arr1.sub x z))
          (normOf1 (Py.Arr1.scale args.rho (Py.Arr1.sub z zOld))) := by
  unfold Gen.check_convergence Numeric.stopRule Numeric.pyMax Py.max2 slackOf
  rfl

/-- what the rule hands on besides its verdict: the two residuals and the two tolerances it compared -/
theorem check_convergence_parts (normOf1 : Py.Arr1 α → α) (sqrtOfInt : Int → α) (args : Py.ADMMArgs α) (u x z zOld : Py.Arr1 α) :
    (Gen.check_convergence normOf1 sqrtOfInt args u x z zOld).2.1 = normOf1 (Py.Arr1.sub x z) ∧
    (Gen.check_convergence normOf1 sqrtOfInt args u x z zOld).2.2.2.1
      = normOf1 (Py.Arr1.scale args.rho (Py.Arr1.sub z zOld)) := ⟨rfl, rfl⟩

omit [LinearOrder α] in
/-- the translated X update: the proximal operator of the log-det term (a function parameter: an eigendecomposition) applied to
the covariance, the RE-INFLATED `z − u` (the translated `reinflate_matrix`, `Props/TrCompress.lean`) and the step parameter -/
theorem admm_update_x_eq (xProx : Py.Arr2 α → Py.Arr2 α → α → Py.Arr1 α) (args : Py.ADMMArgs α) (u z : Py.Arr1 α)
    (S : Py.Arr2 α) :
    Gen.admm_update_x xProx args u z S = xProx S (Gen.reinflate_matrix (Py.Arr1.sub z u)) args.rho := rfl

/-- **the whole translated solver**: the translated loop run with the translated stopping rule returns what
`MainLoop.admmRun` returns with `Numeric.stopRule` as its rule (no step-parameter hook). -/
theorem run_with_translated_rule
    (xUpdate : Py.ADMMArgs α → Py.Arr1 α → Py.Arr1 α → Py.Arr2 α → Py.Arr1 α)
    (normOf1 : Py.Arr1 α → α) (sqrtOfInt : Int → α)
    (args : Py.ADMMArgs α) (S : Py.Arr2 α) (maxIter : Nat) (hmax : args.max_iterations = (maxIter : Int))
    (hcb : args.rho_update = none)
    (zf : Py.Arr1 α → Py.Arr1 α → Py.Arr1 α) (hz : ∀ u x, Gen.admm_update_z args u x = .ok (zf u x)) :
    Gen.run_admm_optimization xUpdate (Gen.check_convergence normOf1 sqrtOfInt) args S
      = .ok (MainLoop.admmRun (sweepOf xUpdate zf args S)
          (fun s' zOld => Numeric.stopRule (sqrtOfInt (Py.Arr1.size s'.x)) args.absolute_tolerance args.relative_tolerance
            (slackOf α) (normOf1 s'.x) (normOf1 s'.z) (normOf1 (Py.Arr1.scale args.rho s'.u))
            (normOf1 (Py.Arr1.sub s'.x s'.z)) (normOf1 (Py.Arr1.scale args.rho (Py.Arr1.sub s'.z zOld))))
          (fun s _ => s) maxIter
          (Py.Arr1.const (Py.intOfRat (Py.trueDiv ((args.window_size * args.num_data_series)
            * (args.window_size * args.num_data_series + 1)) 2)) (0 : α))).1 := by
  rw [run_admm_optimization_eq xUpdate (Gen.check_convergence normOf1 sqrtOfInt) args S maxIter hmax hcb zf hz]
  have hstop : stopOf (Gen.check_convergence normOf1 sqrtOfInt) args
      = (fun s' zOld => Numeric.stopRule (sqrtOfInt (Py.Arr1.size s'.x)) args.absolute_tolerance args.relative_tolerance
            (slackOf α) (normOf1 s'.x) (normOf1 s'.z) (normOf1 (Py.Arr1.scale args.rho s'.u))
            (normOf1 (Py.Arr1.sub s'.x s'.z)) (normOf1 (Py.Arr1.scale args.rho (Py.Arr1.sub s'.z zOld)))) := by
    funext s' zOld
    unfold stopOf
    exact check_convergence_eq normOf1 sqrtOfInt args s'.u s'.x s'.z zOld
  rw [hstop]
end
end FastTicc.Translated

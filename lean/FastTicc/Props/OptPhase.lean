/-
The MRFs a run scores with and returns, as reconstructed from the raw solver output by the
optimise phase (`OptPhase.reconstruct` = re-inflate ∘ covariance floor): symmetric; no entry
strictly between `0` and `eps` in magnitude; every entry of magnitude `≥ eps` is exactly the
solver's number; with no floor (`eps = 0`) the matrix is exactly the re-inflated solver output, whose
upper triangle compresses back to the solver's vector (C03 floor clause + C11 round trip, on the
object the whole-run model uses).
-/
import FastTicc.Model.OptPhase
import FastTicc.Props.C03
import FastTicc.Props.C11

namespace FastTicc.OptPhase
open FastTicc FastTicc.Index FastTicc.Numeric

variable {α : Type} [Field α] [LinearOrder α] [IsStrictOrderedRing α]

/-- the reconstructed MRF is symmetric, whatever the solver returned and whatever the floor. -/
theorem reconstruct_symm (eps : α) (v : List α) (r c : Nat) :
    reconstruct eps v r c = reconstruct eps v c r := by
  unfold reconstruct
  rw [reinflate_symm]

/-- no entry of the reconstructed MRF has a magnitude strictly between `0` and `eps`. -/
theorem reconstruct_no_small (eps : α) (heps : 0 ≤ eps) (v : List α) (r c : Nat) :
    ¬ (0 < |reconstruct eps v r c| ∧ |reconstruct eps v r c| < eps) :=
  floor_filter_no_small eps _ heps

/-- an entry the solver returned with magnitude `≥ eps` is returned unchanged. -/
theorem reconstruct_keeps_large (eps : α) (v : List α) (r c : Nat) (h : eps ≤ |reinflate v r c|) :
    reconstruct eps v r c = reinflate v r c :=
  floor_filter_keeps_large eps _ h

/-- every entry is the solver's number or zero — the floor invents nothing. -/
theorem reconstruct_id_or_zero (eps : α) (v : List α) (r c : Nat) :
    reconstruct eps v r c = reinflate v r c ∨ reconstruct eps v r c = 0 :=
  floor_filter_id_or_zero eps _

/-- with no floor requested the MRF is exactly the re-inflated solver output, and its upper triangle
is the solver's vector (nothing is lost or moved by the round trip). -/
theorem reconstruct_eps_zero (n : Nat) (v : List α) (hv : v.length = n * (n + 1) / 2) :
    (∀ r c, reconstruct 0 v r c = reinflate v r c) ∧ compress (reconstruct 0 v) n = v := by
  have h1 : ∀ r c, reconstruct 0 v r c = reinflate v r c := fun r c => floor_filter_zero _
  refine ⟨h1, ?_⟩
  have : reconstruct 0 v = reinflate v := by funext r c; exact h1 r c
  rw [this]
  exact compress_reinflate n v hv

/-- the oracles built from raw solver outputs hand the run model symmetric MRFs. -/
theorem oraclesOfRaw_theta_symm (eps : α) (raw : Nat → Nat → List α) (logDet spread : Nat → Nat → α)
    (order : Nat → List Nat) (pick : Nat → Nat → Nat → List Nat) (r k i j : Nat) :
    (oraclesOfRaw eps raw logDet spread order pick).theta r k i j
      = (oraclesOfRaw eps raw logDet spread order pick).theta r k j i :=
  reconstruct_symm eps _ i j

/-- non-vacuity: a 2×2 example with a floor that zeroes the off-diagonal entry. -/
example : (List.range 2).map (fun r => (List.range 2).map (reconstruct (1/10 : Rat) [2, 1/20, 3] r))
    = [[2, 0], [0, 3]] := by decide +kernel

end FastTicc.OptPhase

/-
Property C05 — reported log-likelihoods are exact Gaussian log-densities
(exact-arithmetic identity over ℝ; floating-point range is explored on the implementation).
Property theorems only; helper lemmas live in `FastTicc/Proofs/Stats.lean`.
-/
import FastTicc.Model.Numeric
import FastTicc.Proofs.Stats
import Mathlib.Analysis.SpecialFunctions.Pow.Real
import Mathlib.Analysis.SpecialFunctions.Log.Basic
import Mathlib.Analysis.Real.Sqrt
import Mathlib.Algebra.BigOperators.Ring.Finset
import Mathlib.Tactic.Ring
import Mathlib.Tactic.Linarith

namespace FastTicc.Numeric

/-- the quadratic form the kernel computes is `Σ_i Σ_j d_i Θ_ij d_j`. -/
theorem quadForm_eq_sum (n : ℕ) (theta : ℕ → ℕ → ℝ) (d : ℕ → ℝ) :
    quadForm n theta d = ∑ j ∈ Finset.range n, ∑ i ∈ Finset.range n, d i * theta i j * d j := by
  unfold quadForm
  simp only [sumTo_eq_sum, Finset.sum_mul]

/-- `½(log det Θ − (x−μ)ᵀΘ(x−μ) − n·log c)` is the logarithm of the Gaussian density
`c^{−n/2} · (det Θ)^{1/2} · exp(−½ (x−μ)ᵀΘ(x−μ))` for every dimension `n`, every `det Θ > 0`
and every `c > 0` (the code uses `c = 2π`). -/
theorem ll_is_log_gaussian_density (n : ℕ) (c detTheta : ℝ) (hc : 0 < c) (hdet : 0 < detTheta)
    (theta : ℕ → ℕ → ℝ) (mu x : ℕ → ℝ) :
    logLik n (1 / 2) (Real.log detTheta) ((n : ℝ) * Real.log c) theta mu x =
      Real.log (c ^ (-(n : ℝ) / 2) * Real.sqrt detTheta *
        Real.exp (-(1 / 2) * quadForm n theta (fun i => x i - mu i))) := by
  have h1 : 0 < c ^ (-(n : ℝ) / 2) := Real.rpow_pos_of_pos hc _
  have h2 : 0 < Real.sqrt detTheta := Real.sqrt_pos.mpr hdet
  have h3 : 0 < Real.exp (-(1 / 2) * quadForm n theta (fun i => x i - mu i)) := Real.exp_pos _
  rw [Real.log_mul (mul_pos h1 h2).ne' h3.ne', Real.log_mul h1.ne' h2.ne', Real.log_rpow hc,
    Real.log_sqrt hdet.le, Real.log_exp]
  unfold logLik
  ring

/-- every cell of the table is the formula at (row `p`, mean and precision of cluster `k`),
whatever order the cells are evaluated in. -/
theorem ll_table_entry (n : ℕ) (half nwLog2pi : ℝ) (logDets : ℕ → ℝ) (thetas : ℕ → ℕ → ℕ → ℝ)
    (mus : ℕ → ℕ → ℝ) (data : ℕ → ℕ → ℝ) (p k : ℕ) :
    logLikTable n half nwLog2pi logDets thetas mus data p k =
      logLik n half (logDets k) nwLog2pi (thetas k) (mus k) (data p) := by
  rfl

/-- why `slogdet` and `log(det)` are the same real number: for positive pivots the log of their
product is the sum of their logs (only the second stays in floating-point range). -/
theorem log_prod_eq_sum_log (pivots : List ℝ) (hpos : ∀ p ∈ pivots, 0 < p) :
    Real.log pivots.prod = (pivots.map Real.log).sum := by
  induction pivots with
  | nil => simp
  | cons p ps ih =>
    have hp : 0 < p := hpos p (List.mem_cons_self ..)
    have hps : ∀ q ∈ ps, 0 < q := fun q hq => hpos q (List.mem_cons_of_mem _ hq)
    have hprod : 0 < ps.prod := List.prod_pos hps
    rw [List.prod_cons, Real.log_mul hp.ne' hprod.ne', ih hps, List.map_cons, List.sum_cons]

/-- the log-likelihood is monotone in the quadratic form: a point farther (in Θ-norm) from the
mean is less likely — sign check of the formula. -/
theorem logLik_antitone_in_quad (n : ℕ) (logDet c : ℝ) (theta : ℕ → ℕ → ℝ) (mu x y : ℕ → ℝ)
    (h : quadForm n theta (fun i => x i - mu i) ≤ quadForm n theta (fun i => y i - mu i)) :
    logLik n (1 / 2) logDet c theta mu y ≤ logLik n (1 / 2) logDet c theta mu x := by
  unfold logLik
  linarith

end FastTicc.Numeric

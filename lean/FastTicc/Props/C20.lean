/-
Property C20 — failures surface as exceptions, never as a partial result.
Property theorems only; helper lemmas live in `FastTicc/Proofs/MainLoop.lean`.
-/
import FastTicc.Model.MainLoop
import FastTicc.Proofs.MainLoop

namespace FastTicc.MainLoop

variable {σ ε L : Type} [DecidableEq L] (P : Phases σ ε) (labels : σ → L)

/-- a round fails exactly with the error of its first failing phase, in the order
repop (rounds > 0 only) → stats → opt → relabel. -/
theorem round_error_iff (i : Nat) (s : σ) (e : ε) :
    round P i s = .error e ↔
      ((0 < i ∧ P.repop s = .error e) ∨
       ∃ s1, (if 0 < i then P.repop s else .ok s) = .ok s1 ∧
         (P.stats s1 = .error e ∨
          ∃ s2, P.stats s1 = .ok s2 ∧
            (P.opt s2 = .error e ∨ ∃ s3, P.opt s2 = .ok s3 ∧ P.relabel s3 = .error e))) := by
  have hz : Constants.repopAfterRound = 0 := rfl
  rcases Nat.eq_zero_or_pos i with hi | hi
  · subst hi
    rw [round_eq_spec]
    simp only [roundSpec, hz, Nat.lt_irrefl, if_false, false_and, false_or, bind, Except.bind,
      pure, Except.pure]
    cases h1 : P.stats s with
    | error e1 => simp [h1]
    | ok s2 =>
      cases h2 : P.opt s2 with
      | error e2 => simp [h1, h2]
      | ok s3 => simp [h1, h2]
  · rw [round_eq_spec]
    simp only [roundSpec, hz, hi, if_true, true_and, bind, Except.bind]
    cases h0 : P.repop s with
    | error e0 => simp
    | ok s1 =>
      cases h1 : P.stats s1 with
      | error e1 => simp [h1]
      | ok s2 =>
        cases h2 : P.opt s2 with
        | error e2 => simp [h1, h2]
        | ok s3 => simp [h1, h2]

/-- if the run raises, the error is one raised by a round that was actually reached. -/
theorem run_error_from_a_round (limit : Nat) (s0 : σ) (e : ε)
    (h : run P labels limit s0 = .error e) :
    ∃ j sPrev, j < limit ∧ round P j sPrev = .error e := by
  obtain ⟨j, sPrev, _, h2, h3⟩ := loop_error_from_round P labels limit 0 none s0 [] e h
  exact ⟨j, sPrev, by omega, h3⟩

/-- a failing round is never swallowed: if the loop is about to run round `i` on state `s`
and that round fails, the whole call fails with that error — no result is produced. -/
theorem fault_surfaces (fuel i : Nat) (prev : Option L) (s : σ) (hist : List σ) (e : ε)
    (h : round P i s = .error e) :
    loop P labels (fuel + 1) i prev s hist = .error e := by
  exact loop_round_error P labels fuel i prev s hist e h

/-- a result is returned only if every round that ran succeeded. -/
theorem no_partial_result (limit : Nat) (s0 : σ) (r : Outcome σ)
    (h : run P labels limit s0 = .ok r) (j : Nat) (hj : j < r.rounds) :
    ∃ sPrev sj, (if j = 0 then some s0 else r.history[j - 1]?) = some sPrev ∧
      round P j sPrev = .ok sj := by
  obtain ⟨sPrev, sj, e1, _, e3⟩ := (run_spec P labels h).chain j (Nat.zero_le _) hj
  exact ⟨sPrev, sj, e1, e3⟩

/-- gathering raises the first failure in cluster order (`AsyncResult.get` order) … -/
theorem gather_error_first {β : Type} (ts : List (Except ε β)) (e : ε) :
    gather ts = .error e ↔
      ∃ k : Nat, ts[k]? = some (Except.error e) ∧ ∀ j : Nat, j < k → ∃ v, ts[j]? = some (Except.ok v) := by
  exact gather_error_first' ts e

/-- … and returns a value only when every task succeeded, in cluster order. -/
theorem gather_ok_iff {β : Type} (ts : List (Except ε β)) (vs : List β) :
    gather ts = .ok vs ↔ ts = vs.map Except.ok := by
  exact gather_ok_iff' ts vs

/-- repaired pool handling: on every path the pool ends joined; it is closed normally exactly
when a result is returned, and the outcome itself is the loop's outcome. -/
theorem pool_never_left_open (limit : Nat) (s0 : σ) :
    let r := runWithPool true P labels limit s0
    r.1 = run P labels limit s0 ∧
    (r.2 = .closedJoined ∨ r.2 = .terminatedJoined) ∧
    (r.2 = .closedJoined ↔ ∃ o, r.1 = .ok o) := by
  simp only [runWithPool]
  cases run P labels limit s0 with
  | error e => simp
  | ok o => simp

/-- the pinned behaviour leaves the pool behind on the error path. -/
theorem pool_leak_pinned :
    ∃ (P : Phases Nat Unit), (runWithPool false P (fun s => s) 3 0).2 = .abandoned := by
  exact ⟨⟨fun _ => .error (), fun _ => .error (), fun _ => .error (), fun _ => .error ()⟩, by decide⟩

/-- giving a front end the other front end's kind of input is a `TypeError` naming the right
entry point; the right kind is accepted. -/
theorem wrong_front_end_is_type_error :
    singleFrontEndAccepts .listOfArrays = .error (.typeError "ticc_joint_labels") ∧
    jointFrontEndAccepts .array2d = .error (.typeError "ticc_labels") ∧
    singleFrontEndAccepts .array2d = .ok () ∧ jointFrontEndAccepts .listOfArrays = .ok () := by
  exact ⟨rfl, rfl, rfl, rfl⟩

end FastTicc.MainLoop

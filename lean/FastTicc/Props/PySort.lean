/-
The primitive `Py.sortedDescBy` - the translator's reading of Python's `sorted(l, key=..., reverse=True)` - meets the
specification of a STABLE descending sort: the result is a permutation of the input, its keys never increase, and the
elements sharing a key keep the order they had in the input (Python's sort is stable and `reverse=True` preserves that).
This removes the primitive from the "trusted reading" part of the translator's trusted base as far as its Lean side goes;
that CPython's `sorted` meets the same specification is what the executed comparisons of C08 check on every run.
-/
import FastTicc.Model.Py
import Mathlib.Order.Basic
import Mathlib.Data.List.Perm.Basic
open FastTicc

namespace FastTicc.PySort
section
variable {β γ : Type} [LinearOrder β]

theorem insertDescBy_perm (key : γ → β) (x : γ) (l : List γ) : (Py.insertDescBy key x l).Perm (x :: l) := by
  induction l with
  | nil => simp [Py.insertDescBy]
  | cons y t ih =>
    unfold Py.insertDescBy
    split
    · exact (List.Perm.cons y ih).trans (List.Perm.swap x y t)
    · exact List.Perm.refl _

/-- the result holds exactly the elements of the input -/
theorem sortedDescBy_perm (key : γ → β) (l : List γ) : (Py.sortedDescBy key l).Perm l := by
  induction l with
  | nil => simp [Py.sortedDescBy]
  | cons x t ih =>
    unfold Py.sortedDescBy at ih ⊢
    rw [List.foldr_cons]
    exact (insertDescBy_perm key x _).trans (List.Perm.cons x ih)

theorem insertDescBy_sorted (key : γ → β) (x : γ) (l : List γ)
    (h : l.Pairwise (fun a b => key b ≤ key a)) : (Py.insertDescBy key x l).Pairwise (fun a b => key b ≤ key a) := by
  induction l with
  | nil => simp [Py.insertDescBy]
  | cons y t ih =>
    unfold Py.insertDescBy
    have ht := (List.pairwise_cons.mp h)
    split
    · rename_i hlt
      refine List.pairwise_cons.mpr ⟨?_, ih ht.2⟩
      intro b hb
      have hmem := (insertDescBy_perm key x t).mem_iff.mp hb
      rcases List.mem_cons.mp hmem with hbx | hbt
      · rw [hbx]; exact le_of_lt hlt
      · exact ht.1 b hbt
    · rename_i hnlt
      have hyx : key y ≤ key x := not_lt.mp hnlt
      refine List.pairwise_cons.mpr ⟨?_, h⟩
      intro b hb
      rcases List.mem_cons.mp hb with hb' | hb'
      · subst hb'; exact hyx
      · exact le_trans (ht.1 b hb') hyx

/-- the keys of the result never increase -/
theorem sortedDescBy_sorted (key : γ → β) (l : List γ) :
    (Py.sortedDescBy key l).Pairwise (fun a b => key b ≤ key a) := by
  induction l with
  | nil => simp [Py.sortedDescBy]
  | cons x t ih =>
    unfold Py.sortedDescBy at ih ⊢
    rw [List.foldr_cons]
    exact insertDescBy_sorted key x _ ih

theorem insertDescBy_filter (key : γ → β) (k : β) (x : γ) (l : List γ) :
    (Py.insertDescBy key x l).filter (fun y => decide (key y = k)) = (x :: l).filter (fun y => decide (key y = k)) := by
  induction l with
  | nil => simp [Py.insertDescBy]
  | cons y t ih =>
    unfold Py.insertDescBy
    split
    · rename_i hlt
      by_cases hy : key y = k
      · have hx : ¬ key x = k := by intro hx; rw [hx, hy] at hlt; exact lt_irrefl _ hlt
        simp [hy, hx, ih]
      · by_cases hx : key x = k <;> simp [hy, hx, ih]
    · rfl

/-- STABILITY: the elements that share a key appear in the order they had in the input -/
theorem sortedDescBy_stable (key : γ → β) (k : β) (l : List γ) :
    (Py.sortedDescBy key l).filter (fun y => decide (key y = k)) = l.filter (fun y => decide (key y = k)) := by
  induction l with
  | nil => simp [Py.sortedDescBy]
  | cons x t ih =>
    unfold Py.sortedDescBy at ih ⊢
    rw [List.foldr_cons, insertDescBy_filter, List.filter_cons, List.filter_cons, ih]

/-- the three clauses together determine the result: `sortedDescBy` IS the stable descending sort -/
theorem sortedDescBy_spec (key : γ → β) (l : List γ) :
    (Py.sortedDescBy key l).Perm l ∧ (Py.sortedDescBy key l).Pairwise (fun a b => key b ≤ key a) ∧
    ∀ k, (Py.sortedDescBy key l).filter (fun y => decide (key y = k)) = l.filter (fun y => decide (key y = k)) :=
  ⟨sortedDescBy_perm key l, sortedDescBy_sorted key l, fun k => sortedDescBy_stable key k l⟩

example : Py.sortedDescBy (fun (p : Nat × Nat) => p.1) [(1, 0), (3, 1), (1, 2), (3, 3), (2, 4)]
    = [(3, 1), (3, 3), (2, 4), (1, 0), (1, 2)] := by decide
end
end FastTicc.PySort

/-
TRANSLATED CODE = MODEL (assign_point_cluster_labels, property C01).  `Generated/Kernels.lean` is rewritten from the Python AST of
`$REPO/src/fast_ticc` by `harness/py2lean.py` on every run; the theorems below are about those generated
definitions and prove, for ALL inputs, that they compute what the hand-written model computes - the model the
property theorems are about.  They only keep checking while the source still says what the model says.
-/
import FastTicc.Generated.Kernels
import FastTicc.Proofs.Translated
import FastTicc.Props.C01
open FastTicc FastTicc.PyLemmas

namespace FastTicc.Translated

section
variable {α : Type} [Zero α] [Add α] [Sub α] [LT α] [DecidableLT α]

/-- the generated kernel, with its three loop bodies named (`rfl`: the generated text is literally this) -/
theorem gen_viterbi_structured (cost : Py.Arr2 α) (sov : Py.ScalarOrVec α) :
    Gen.assign_point_cluster_labels cost sov =
      (let T := cost.shape0
       let K := cost.shape1
       let lsc := Py.broadcastAdd (Py.Arr1.const T (0 : α)) sov
       let r := Py.forEach (Py.range (T - 2) (-1) (-1)) (Py.Arr2.const T K (0 : Int), Py.Arr2.const T K (0 : α))
                  (outerBody cost lsc K)
       let path0 := Py.setItem (Py.repeatList [(-1 : Int)] T) 0
                      (Py.Arr1.argmin (Py.Arr1.add (r.2.row 0) (cost.row 0)))
       let cst := r.2.get2 0 (Py.getItem path0 0) + cost.get2 0 (Py.getItem path0 0)
       (Py.forEach (Py.range 0 (T - 1) 1) path0 (pathBody r.1), cst)) := rfl


end

section
variable {α : Type} [Zero α] [Add α] [Sub α] [LT α] [DecidableLT α]

/-- the switching-cost vector the kernel builds on its first line: `np.zeros(T) + beta` -/
def kernelBeta (cost : Py.Arr2 α) (sov : Py.ScalarOrVec α) : Py.Arr1 α :=
  Py.broadcastAdd (Py.Arr1.const (cost.rows : Int) (0 : α)) sov

/-- **the translated labelling kernel is the Viterbi model**: for every cost table with at least one point and one
cluster and every switching cost (scalar or vector), the function translated from `assign_point_cluster_labels`
returns exactly the labels and the cost of `Viterbi.viterbi` on the same points. -/
theorem assign_point_cluster_labels_eq (cost : Py.Arr2 α) (sov : Py.ScalarOrVec α)
    (hT : 0 < cost.rows) (hK : 0 < cost.cols) :
    Gen.assign_point_cluster_labels cost sov
      = (((Viterbi.viterbi cost.cols (ptsOf cost (kernelBeta cost sov))).1.map (fun (c : Nat) => (c : Int))),
         (Viterbi.viterbi cost.cols (ptsOf cost (kernelBeta cost sov))).2) := by
  rw [gen_viterbi_structured]
  unfold kernelBeta
  have hl : (Py.broadcastAdd (Py.Arr1.const (cost.rows : Int) (0 : α)) sov).n = cost.rows := lsc_n cost.rows sov
  simp only [Py.Arr2.shape0, Py.Arr2.shape1]
  generalize Py.broadcastAdd (Py.Arr1.const (cost.rows : Int) (0 : α)) sov = lsc at *
  have e2 : (cost.rows : Int) - 2 = ((cost.rows - 1 : Nat) : Int) - 1 := by omega
  rw [e2, forEach_range_down]
  have hst : (List.range (cost.rows - 1)).foldl
      (fun s (k : Nat) => outerBody cost lsc (cost.cols : Int) (((cost.rows - 1 - 1 - k : Nat) : Nat) : Int) s)
      (Py.Arr2.const cost.rows cost.cols (0 : Int), Py.Arr2.const cost.rows cost.cols (0 : α))
      = outerState cost lsc (cost.rows - 1) := rfl
  rw [hst]
  obtain ⟨h1, h2, h3, h4, h5, h6⟩ := outer_loop cost lsc hl hK (cost.rows - 1) (by omega)
  generalize outerState cost lsc (cost.rows - 1) = st at *
  -- the model side
  obtain ⟨T', hT'⟩ : ∃ T', cost.rows = T' + 1 := ⟨cost.rows - 1, by omega⟩
  have hpts : ptsOf cost lsc = (cost.get 0, lsc.get 0) :: (ptsOf cost lsc).drop 1 := by
    unfold ptsOf
    rw [hT', List.range_succ_eq_map]
    simp
  have hfut0 : (Viterbi.back cost.cols (ptsOf cost lsc)).1 = futM cost lsc 0 := by
    unfold futM; rw [List.drop_zero]
  have hpath : (Viterbi.back cost.cols (ptsOf cost lsc)).2 = (List.range (cost.rows - 1)).map (pathRow cost lsc) := by
    have := back_snd_eq cost lsc (cost.rows - 1) 0 (by omega)
    rw [List.drop_zero] at this
    rw [this]
    apply List.map_congr_left
    intro j _
    simp [pathRow]
  -- the start label
  have hstart : Py.Arr1.argmin (Py.Arr1.add (st.2.row 0) (cost.row 0))
      = ((Viterbi.argmin (fun c => futM cost lsc 0 c + cost.get 0 c) cost.cols : Nat) : Int) := by
    simp only [Py.Arr1.argmin, Py.Arr1.add, Py.Arr2.row, h4, pyArgminUpTo_eq, Viterbi.argmin]
    congr 1
    apply Viterbi.argminUpTo_congr
    intro c hc
    have : Py.idx st.2.rows 0 = 0 := idx_nat _ 0
    have h0 : Py.idx cost.rows 0 = 0 := idx_nat _ 0
    simp only [this, h0]
    rw [h5 0 c (by omega) (by omega) (by omega)]
  set start := Viterbi.argmin (fun c => futM cost lsc 0 c + cost.get 0 c) cost.cols with hs
  have hslt : start < cost.cols := Viterbi.argmin_lt _ hK
  have hmodel : Viterbi.viterbi cost.cols (ptsOf cost lsc)
      = ((List.range cost.rows).map (labs (pathRow cost lsc) start), futM cost lsc 0 start + cost.get 0 start) := by
    rw [hpts]
    simp only [Viterbi.viterbi]
    rw [← hpts, hfut0, hpath, ← hs, follow_map_range]
    have : cost.rows - 1 + 1 = cost.rows := by omega
    rw [this]
  rw [hmodel, hstart]
  -- the initial path list
  have hpath0 : Py.setItem (Py.repeatList [(-1 : Int)] (cost.rows : Int)) 0 ((start : Nat) : Int)
      = (List.range cost.rows).map (fun j => if j ≤ 0 then ((labs (pathRow cost lsc) start j : Nat) : Int) else -1) := by
    rw [repeatList_single]
    unfold Py.setItem
    have : Py.idx (List.replicate cost.rows (-1 : Int)).length 0 = 0 := idx_nat _ 0
    rw [this]
    apply List.ext_getElem
    · simp
    · intro j hj1 hj2
      simp only [List.getElem_set, List.getElem_map, List.getElem_range, List.getElem_replicate]
      by_cases hj : 0 = j
      · subst hj; simp [labs]
      · rw [if_neg hj, if_neg (by omega)]
  rw [hpath0]
  have hg0 : Py.getItem ((List.range cost.rows).map
      (fun j => if j ≤ 0 then ((labs (pathRow cost lsc) start j : Nat) : Int) else -1)) 0 = ((start : Nat) : Int) := by
    have := getItem_natCast_map (fun j => if j ≤ 0 then ((labs (pathRow cost lsc) start j : Nat) : Int) else -1)
      cost.rows 0 hT
    simpa [labs] using this
  rw [hg0]
  have e1 : (cost.rows : Int) - 1 = ((cost.rows - 1 : Nat) : Int) := by omega
  rw [e1, forEach_range]
  have hloop := path_loop cost lsc st.1 hK ⟨h1, h2⟩
    (fun r c hr hc => by rw [h6 r c (by omega) hr hc]; rfl) start hslt (cost.rows - 1) (by omega)
  rw [hloop]
  congr 1
  · rw [List.map_map]
    apply List.map_congr_left
    intro j hj
    have : j < cost.rows := List.mem_range.mp hj
    simp only [Function.comp]
    rw [if_pos (by omega)]
  · have h0 : Py.idx cost.rows 0 = 0 := idx_nat _ 0
    simp only [Py.Arr2.get2, idx_nat, h3, h4, h0]
    rw [h5 0 start (by omega) (by omega) hslt]

end


/-! ### what the equivalence buys: C01 for the translated kernel itself -/
section
variable {α : Type} [AddCommGroup α] [LinearOrder α] [IsOrderedAddMonoid α]

/-- **C01 about the code as translated**: for every cost table (T ≥ 1 points, K ≥ 1 clusters) and every non-negative
switching cost, the function translated from `assign_point_cluster_labels` returns one label in `[0, K)` per point,
reports the total cost of exactly that labelling, and no labelling of the `K^T` candidates is cheaper. -/
theorem translated_kernel_optimal (cost : Py.Arr2 α) (sov : Py.ScalarOrVec α)
    (hT : 0 < cost.rows) (hK : 0 < cost.cols)
    (hb : Viterbi.BetaNonneg (ptsOf cost (kernelBeta cost sov))) :
    ∃ labels : List Nat,
      (Gen.assign_point_cluster_labels cost sov).1 = labels.map (fun (c : Nat) => (c : Int)) ∧
      Viterbi.ValidLabels cost.cols cost.rows labels ∧
      (Gen.assign_point_cluster_labels cost sov).2
        = Viterbi.totalCost (ptsOf cost (kernelBeta cost sov)) labels ∧
      ∀ q, Viterbi.ValidLabels cost.cols cost.rows q →
        (Gen.assign_point_cluster_labels cost sov).2 ≤ Viterbi.totalCost (ptsOf cost (kernelBeta cost sov)) q := by
  have hlen : (ptsOf cost (kernelBeta cost sov)).length = cost.rows := by simp [ptsOf]
  have hne : ptsOf cost (kernelBeta cost sov) ≠ [] := by
    intro h; rw [h] at hlen; simp at hlen; omega
  refine ⟨(Viterbi.viterbi cost.cols (ptsOf cost (kernelBeta cost sov))).1, ?_, ?_, ?_, ?_⟩
  · rw [assign_point_cluster_labels_eq cost sov hT hK]
  · exact ⟨by rw [Viterbi.viterbi_length _ _ hne, hlen], Viterbi.viterbi_labels_in_range _ hK _⟩
  · rw [assign_point_cluster_labels_eq cost sov hT hK]
    exact Viterbi.viterbi_cost_is_cost_of_path _ hK _ hne hb
  · intro q hq
    rw [assign_point_cluster_labels_eq cost sov hT hK]
    exact Viterbi.viterbi_optimal _ hK _ hb q (by rw [hlen]; exact hq)

/-- a scalar switching cost `b` reaches the kernel as the constant vector `b` (`np.zeros(T) + b`). -/
theorem kernelBeta_scalar (cost : Py.Arr2 α) (b : α) (i : Nat) :
    (kernelBeta cost (.scalar b)).get i = b := by
  simp [kernelBeta, Py.broadcastAdd, Py.Arr1.addScalar, Py.Arr1.const]

/-- a vector switching cost reaches the kernel unchanged -/
theorem kernelBeta_vec (cost : Py.Arr2 α) (a : Py.Arr1 α) (i : Nat) :
    (kernelBeta cost (.vec a)).get i = a.get i := by
  simp [kernelBeta, Py.broadcastAdd, Py.Arr1.add, Py.Arr1.const]

end

end FastTicc.Translated

/-
TRANSLATED CODE = MODEL (label_switching_cost_template, property C07).  `Generated/Kernels.lean` is rewritten from the Python AST of
`$REPO/src/fast_ticc` by `harness/py2lean.py` on every run; the theorems below are about those generated
definitions and prove, for ALL inputs, that they compute what the hand-written model computes - the model the
property theorems are about.  They only keep checking while the source still says what the model says.
-/
import FastTicc.Generated.Kernels
import FastTicc.Proofs.Translated
open FastTicc FastTicc.PyLemmas

namespace FastTicc.Translated

theorem label_switching_cost_template_eq {α : Type} [Zero α] [One α] (lens : List Nat) (hpos : ∀ x ∈ lens, 0 < x) :
    (Gen.label_switching_cost_template (α := α) (lens.map (fun (x : Nat) => (x : Int)))).toList
      = (Stack.maskTemplate lens).map (fun b => if b = 0 then (0 : α) else 1) := by
  unfold Gen.label_switching_cost_template Stack.maskTemplate
  rw [sum_natCast, accumulate_natCast, stack_accumulate_eq]
  simp only [Py.Arr1.toList, Py.Arr1.setMany, Py.Arr1.const, Py.popLast, Int.toNat_natCast, List.map_map]
  apply List.map_congr_left
  intro k hk
  have key : (List.map (Py.idx lens.sum ∘ fun endpoint => endpoint - 1)
        (List.map (fun i => ((pref lens (i + 1) : Nat) : Int)) (List.range lens.length)).dropLast)
      = List.map (fun x => x - 1) (List.map (fun i => pref lens (i + 1)) (List.range lens.length)).dropLast := by
    rw [← List.map_dropLast, ← List.map_dropLast, List.map_map, List.map_map]
    apply List.map_congr_left
    intro i hi
    have hi' : i < lens.length := by
      have := List.dropLast_subset _ hi
      exact List.mem_range.mp this
    have := pref_pos lens hpos i hi'
    simp only [Function.comp, Py.idx]
    have h0 : ¬ (((pref lens (i + 1) : Nat) : Int) - 1 < 0) := by omega
    rw [if_neg h0]
    omega
  simp only [Function.comp] at key ⊢
  rw [key]
  split <;> simp

end FastTicc.Translated

/-
Helper lemmas about the Python primitives of `Model/Py.lean` (ranges, loops as folds, true division,
prefix sums, slices), used by `Props/Translated.lean`.
-/
import FastTicc.Model.Py
import FastTicc.Model.Stack
import FastTicc.Model.Index
import FastTicc.Model.Viterbi
import FastTicc.Proofs.Viterbi
import Mathlib.Data.Rat.Floor
import Mathlib.Tactic.Ring
import Mathlib.Tactic.Linarith
open FastTicc

namespace FastTicc.PyLemmas

theorem rangeLen_zero_one (n : Nat) : Py.rangeLen 0 n 1 = n := by
  simp [Py.rangeLen]

theorem range_zero_one (n : Nat) : Py.range 0 n 1 = (List.range n).map (fun (k : Nat) => (k : Int)) := by
  unfold Py.range
  rw [rangeLen_zero_one]
  apply List.map_congr_left
  intro k _
  simp

theorem rat_floor_eq (q : Rat) : q.floor = ⌊q⌋ := by
  rw [Rat.floor_def, Rat.floor_def']

theorem intOfRat_trueDiv_two (a : Nat) : Py.intOfRat (Py.trueDiv (a : Int) 2) = ((a / 2 : Nat) : Int) := by
  unfold Py.intOfRat Py.trueDiv
  have h : (0 : Rat) ≤ ((a : Int) : Rat) / ((2 : Int) : Rat) := by positivity
  rw [if_pos h, rat_floor_eq]
  have := Rat.floor_intCast_div_natCast (a : Int) 2
  simpa using this

theorem repeatList_single {α} (x : α) (n : Nat) : Py.repeatList [x] (n : Int) = List.replicate n x := by
  unfold Py.repeatList
  simp


open FastTicc.PyLemmas

theorem intOfRat_intCast (z : Int) : Py.intOfRat (z : Rat) = z := by
  unfold Py.intOfRat
  split <;> simp [rat_floor_eq, Rat.ceil_intCast]

theorem trueDiv_even (a : Int) (h : a % 2 = 0) : Py.trueDiv a 2 = ((a / 2 : Int) : Rat) := by
  unfold Py.trueDiv
  obtain ⟨k, rfl⟩ : ∃ k, a = 2 * k := ⟨a / 2, by omega⟩
  simp

theorem mul_succ_even (r : Int) : (r * (r + 1)) % 2 = 0 := by
  rcases Int.emod_two_eq_zero_or_one r with h | h
  · simp [Int.mul_emod, h]
  · have : (r + 1) % 2 = 0 := by omega
    simp [Int.mul_emod, this]

theorem forEach_range {σ} (n : Nat) (init : σ) (body : Int → σ → σ) :
    Py.forEach (Py.range 0 n 1) init body = (List.range n).foldl (fun s (k : Nat) => body (k : Int) s) init := by
  unfold Py.forEach
  rw [range_zero_one, List.foldl_map]

theorem getItem_append_last {α} [Inhabited α] (l : List α) (x : α) : Py.getItem (Py.append l x) (-1) = x := by
  unfold Py.getItem Py.append Py.idx
  simp

theorem foldl_append_map {α β} (f : α → β) (l : List α) (init : List β) :
    l.foldl (fun acc a => acc ++ [f a]) init = init ++ l.map f := by
  induction l generalizing init with
  | nil => simp
  | cons a t ih => simp [ih]

theorem foldl_congr_mem {α β} (l : List α) (f g : β → α → β) (init : β)
    (h : ∀ acc a, a ∈ l → f acc a = g acc a) : l.foldl f init = l.foldl g init := by
  induction l generalizing init with
  | nil => rfl
  | cons a t ih =>
    simp only [List.foldl_cons]
    rw [h init a (by simp), ih _ (fun acc x hx => h acc x (by simp [hx]))]

theorem sum_foldl (l : List Nat) (acc : Int) :
    (l.map (fun (x : Nat) => (x : Int))).foldl (· + ·) acc = acc + ((l.sum : Nat) : Int) := by
  induction l generalizing acc with
  | nil => simp
  | cons a t ih => simp [ih]; ring

theorem sum_natCast (l : List Nat) : Py.sum (l.map (fun (x : Nat) => (x : Int))) = ((l.sum : Nat) : Int) := by
  unfold Py.sum; rw [sum_foldl]; simp

def pref (l : List Nat) (i : Nat) : Nat := (l.take i).sum

theorem accumulateFrom_natCast (l : List Nat) (a : Nat) :
    Py.accumulateFrom (a : Int) (l.map (fun (x : Nat) => (x : Int)))
      = (List.range l.length).map (fun i => ((a + pref l (i + 1) : Nat) : Int)) := by
  induction l generalizing a with
  | nil => rfl
  | cons x t ih =>
    simp only [List.map_cons, Py.accumulateFrom, List.length_cons, List.range_succ_eq_map, List.map_cons, List.map_map]
    have : (a : Int) + (x : Int) = ((a + x : Nat) : Int) := by push_cast; rfl
    rw [this, ih]
    congr 1
    simp [pref]
    intro i _
    ring

theorem accumulate_natCast (l : List Nat) :
    Py.accumulate (l.map (fun (x : Nat) => (x : Int)))
      = (List.range l.length).map (fun i => ((pref l (i + 1) : Nat) : Int)) := by
  have := accumulateFrom_natCast l 0
  simpa [Py.accumulate] using this

theorem getItem_natCast_map (f : Nat → Int) (n i : Nat) (h : i < n) :
    Py.getItem ((List.range n).map f) (i : Int) = f i := by
  unfold Py.getItem Py.idx
  have : ¬ ((i : Int) < 0) := by omega
  simp [this, h]

theorem pref_le_sum (l : List Nat) (i : Nat) : pref l i ≤ l.sum := by
  unfold pref
  conv => rhs; rw [← List.take_append_drop i l]
  rw [List.sum_append_nat]
  omega

theorem pref_succ (l : List Nat) (i : Nat) (h : i < l.length) : pref l (i + 1) = pref l i + l[i] := by
  unfold pref
  rw [List.take_succ_eq_append_getElem h, List.sum_append_nat]
  simp

theorem slice_natCast {α} (l : List α) (a b : Nat) (ha : a ≤ b) (hb : b ≤ l.length) :
    Py.slice l (a : Int) (b : Int) = (l.drop a).take (b - a) := by
  unfold Py.slice Py.sliceBound
  have h1 : ¬ ((a : Int) < 0) := by omega
  have h2 : ¬ ((b : Int) < 0) := by omega
  simp only [h1, h2, if_false, Int.toNat_natCast]
  rw [Nat.min_eq_left (show a ≤ l.length by omega), Nat.min_eq_left hb]

theorem splitJoint_eq_map {α} (l : List α) (lens : List Nat) :
    Stack.splitJoint l lens
      = (List.range lens.length).map (fun i => (l.drop (pref lens i)).take (lens.getD i 0)) := by
  induction lens generalizing l with
  | nil => rfl
  | cons n t ih =>
    simp only [Stack.splitJoint, List.length_cons, List.range_succ_eq_map, List.map_cons, List.map_map]
    congr 1
    rw [ih]
    apply List.map_congr_left
    intro i _
    simp [pref, Function.comp, Nat.add_comm]

theorem stack_accumulate_eq (l : List Nat) :
    Stack.accumulate l = (List.range l.length).map (fun i => pref l (i + 1)) := by
  induction l with
  | nil => rfl
  | cons x t ih =>
    simp only [Stack.accumulate, List.length_cons, List.range_succ_eq_map, List.map_cons, List.map_map, ih]
    congr 1

theorem pref_pos (l : List Nat) (hpos : ∀ x ∈ l, 0 < x) (i : Nat) (hi : i < l.length) : 0 < pref l (i + 1) := by
  cases l with
  | nil => simp at hi
  | cons x t =>
    have := hpos x (by simp)
    simp [pref]
    omega

/-! ### the labelling kernel -/

section
variable {α : Type} [Zero α] [Add α] [Sub α] [LT α] [DecidableLT α]

def innerBody (i : Int) (total : Py.Arr1 α) (am : Int) (bi : α) (cluster : Int)
    (s : Py.Arr2 Int × Py.Arr2 α) : Py.Arr2 Int × Py.Arr2 α :=
  if decide (total.get1 am < total.get1 cluster - bi) then
    (s.1.set i cluster am, s.2.set i cluster (total.get1 am))
  else (s.1.set i cluster cluster, s.2.set i cluster (total.get1 cluster - bi))

def outerBody (cost : Py.Arr2 α) (lsc : Py.Arr1 α) (K : Int) (i : Int)
    (s : Py.Arr2 Int × Py.Arr2 α) : Py.Arr2 Int × Py.Arr2 α :=
  let total := Py.Arr1.addScalar (Py.Arr1.add (s.2.row (i + 1)) (cost.row (i + 1))) (lsc.get1 i)
  Py.forEach (Py.range 0 K 1) s (innerBody i total total.argmin (lsc.get1 i))

def pathBody (pm : Py.Arr2 Int) (i : Int) (path : List Int) : List Int :=
  Py.setItem path (i + 1) (pm.get2 i (Py.getItem path i))

theorem idx_nat (n i : Nat) : Py.idx n (i : Int) = i := by
  unfold Py.idx
  have : ¬ ((i : Int) < 0) := by omega
  simp [this]

theorem pyArgminUpTo_eq (f : Nat → α) (n : Nat) : Py.Arr1.argminUpTo f n = Viterbi.argminUpTo f n := by
  induction n with
  | zero => rfl
  | succ k ih => simp only [Py.Arr1.argminUpTo, Viterbi.argminUpTo, ih]

/-- the inner loop over the clusters of one point -/
theorem inner_loop (T K i a : Nat) (total : Py.Arr1 α) (bi : α) (pm : Py.Arr2 Int) (fut : Py.Arr2 α)
    (hpm : pm.rows = T ∧ pm.cols = K) (hfut : fut.rows = T ∧ fut.cols = K) (htot : total.n = K) (m : Nat) :
    ((List.range m).foldl (fun s (c : Nat) => innerBody (i : Int) total (a : Int) bi (c : Int) s) (pm, fut)).1.rows = T ∧
    ((List.range m).foldl (fun s (c : Nat) => innerBody (i : Int) total (a : Int) bi (c : Int) s) (pm, fut)).1.cols = K ∧
    ((List.range m).foldl (fun s (c : Nat) => innerBody (i : Int) total (a : Int) bi (c : Int) s) (pm, fut)).2.rows = T ∧
    ((List.range m).foldl (fun s (c : Nat) => innerBody (i : Int) total (a : Int) bi (c : Int) s) (pm, fut)).2.cols = K ∧
    (∀ r c, ((List.range m).foldl (fun s (c : Nat) => innerBody (i : Int) total (a : Int) bi (c : Int) s) (pm, fut)).1.get r c
        = if r = i ∧ c < m then (if total.get a < total.get c - bi then (a : Int) else (c : Int)) else pm.get r c) ∧
    (∀ r c, ((List.range m).foldl (fun s (c : Nat) => innerBody (i : Int) total (a : Int) bi (c : Int) s) (pm, fut)).2.get r c
        = if r = i ∧ c < m then (if total.get a < total.get c - bi then total.get a else total.get c - bi)
          else fut.get r c) := by
  induction m with
  | zero => simp [hpm.1, hpm.2, hfut.1, hfut.2]
  | succ k ih =>
    rw [List.range_succ, List.foldl_append]
    generalize (List.range k).foldl (fun s (c : Nat) => innerBody (i : Int) total (a : Int) bi (c : Int) s) (pm, fut) = s at ih
    obtain ⟨h1, h2, h3, h4, h5, h6⟩ := ih
    simp only [List.foldl_cons, List.foldl_nil, innerBody, Py.Arr1.get1, htot, idx_nat]
    by_cases hlt : total.get a < total.get k - bi
    · simp only [hlt, decide_true, if_true, Py.Arr2.set, h1, h2, h3, h4, idx_nat, true_and]
      refine ⟨?_, ?_⟩
      · intro r c
        by_cases hr : r = i <;> by_cases hc : c = k
        · subst hr; subst hc; simp [hlt]
        · subst hr; rw [if_neg (by tauto), h5]
          have : (c < k + 1) = (c < k) := by apply propext; omega
          simp [this]
        · rw [if_neg (by tauto), h5]; simp [hr]
        · rw [if_neg (by tauto), h5]; simp [hr]
      · intro r c
        by_cases hr : r = i <;> by_cases hc : c = k
        · subst hr; subst hc; simp [hlt]
        · subst hr; rw [if_neg (by tauto), h6]
          have : (c < k + 1) = (c < k) := by apply propext; omega
          simp [this]
        · rw [if_neg (by tauto), h6]; simp [hr]
        · rw [if_neg (by tauto), h6]; simp [hr]
    · simp only [hlt, decide_false, Bool.false_eq_true, if_false, Py.Arr2.set, h1, h2, h3, h4, idx_nat, true_and]
      refine ⟨?_, ?_⟩
      · intro r c
        by_cases hr : r = i <;> by_cases hc : c = k
        · subst hr; subst hc; simp [hlt]
        · subst hr; rw [if_neg (by tauto), h5]
          have : (c < k + 1) = (c < k) := by apply propext; omega
          simp [this]
        · rw [if_neg (by tauto), h5]; simp [hr]
        · rw [if_neg (by tauto), h5]; simp [hr]
      · intro r c
        by_cases hr : r = i <;> by_cases hc : c = k
        · subst hr; subst hc; simp [hlt]
        · subst hr; rw [if_neg (by tauto), h6]
          have : (c < k + 1) = (c < k) := by apply propext; omega
          simp [this]
        · rw [if_neg (by tauto), h6]; simp [hr]
        · rw [if_neg (by tauto), h6]; simp [hr]


theorem idx_nat_succ (n i : Nat) : Py.idx n ((i : Int) + 1) = i + 1 := by
  have : (i : Int) + 1 = ((i + 1 : Nat) : Int) := by push_cast; rfl
  rw [this, idx_nat]

theorem forEach_range_down {σ} (n : Nat) (init : σ) (body : Int → σ → σ) :
    Py.forEach (Py.range ((n : Int) - 1) (-1) (-1)) init body
      = (List.range n).foldl (fun s (k : Nat) => body (((n - 1 - k : Nat) : Nat) : Int) s) init := by
  unfold Py.forEach Py.range
  have hl : Py.rangeLen ((n : Int) - 1) (-1) (-1) = n := by
    unfold Py.rangeLen
    simp
  rw [hl, List.foldl_map]
  apply foldl_congr_mem
  intro acc k hk
  have hk' : k < n := List.mem_range.mp hk
  congr 1
  omega

/-- the points of the model: cost row `i` and the switching cost of the pair `(i, i+1)` as the kernel reads it -/
def ptsOf (cost : Py.Arr2 α) (lsc : Py.Arr1 α) : List ((Nat → α) × α) :=
  (List.range cost.rows).map (fun i => (cost.get i, lsc.get i))

theorem ptsOf_drop (cost : Py.Arr2 α) (lsc : Py.Arr1 α) (r : Nat) (h : r + 1 < cost.rows) :
    (ptsOf cost lsc).drop r
      = (cost.get r, lsc.get r) :: (cost.get (r + 1), lsc.get (r + 1)) :: (ptsOf cost lsc).drop (r + 2) := by
  unfold ptsOf
  rw [← List.map_drop, ← List.map_drop, List.drop_eq_getElem_cons (by simp; omega)]
  rw [List.drop_eq_getElem_cons (by simp; omega)]
  simp

theorem ptsOf_drop_last (cost : Py.Arr2 α) (lsc : Py.Arr1 α) (r : Nat) (h : r + 1 = cost.rows) :
    (ptsOf cost lsc).drop r = [(cost.get r, lsc.get r)] := by
  unfold ptsOf
  rw [← List.map_drop, List.drop_eq_getElem_cons (by simp; omega)]
  simp
  omega

/-- row `r` of the model's future-cost table -/
def futM (cost : Py.Arr2 α) (lsc : Py.Arr1 α) (r : Nat) : Nat → α :=
  (Viterbi.back cost.cols ((ptsOf cost lsc).drop r)).1

theorem futM_last (cost : Py.Arr2 α) (lsc : Py.Arr1 α) (r : Nat) (h : r + 1 = cost.rows) (c : Nat) :
    futM cost lsc r c = 0 := by
  unfold futM
  rw [ptsOf_drop_last cost lsc r h]
  rfl

theorem futM_step (cost : Py.Arr2 α) (lsc : Py.Arr1 α) (r : Nat) (h : r + 1 < cost.rows) :
    futM cost lsc r = Viterbi.stepFuture cost.cols (futM cost lsc (r + 1)) (cost.get (r + 1)) (lsc.get r) := by
  unfold futM
  rw [ptsOf_drop cost lsc r h]
  simp only [Viterbi.back]
  rw [ptsOf_drop_eq_tail cost lsc r h]
where
  ptsOf_drop_eq_tail (cost : Py.Arr2 α) (lsc : Py.Arr1 α) (r : Nat) (h : r + 1 < cost.rows) :
      (cost.get (r + 1), lsc.get (r + 1)) :: (ptsOf cost lsc).drop (r + 2) = (ptsOf cost lsc).drop (r + 1) := by
    unfold ptsOf
    rw [← List.map_drop, ← List.map_drop, List.drop_eq_getElem_cons (i := r + 1) (by simp; omega)]
    simp


/-- state after the first `m` iterations of the backward loop (rows `T-2, …, T-1-m`) -/
def outerState (cost : Py.Arr2 α) (lsc : Py.Arr1 α) (m : Nat) : Py.Arr2 Int × Py.Arr2 α :=
  (List.range m).foldl
    (fun s (k : Nat) => outerBody cost lsc (cost.cols : Int) (((cost.rows - 1 - 1 - k : Nat) : Nat) : Int) s)
    (Py.Arr2.const cost.rows cost.cols (0 : Int), Py.Arr2.const cost.rows cost.cols (0 : α))

theorem outer_loop (cost : Py.Arr2 α) (lsc : Py.Arr1 α) (hl : lsc.n = cost.rows) (hK : 0 < cost.cols) (m : Nat)
    (hm : m + 1 ≤ cost.rows) :
    (outerState cost lsc m).1.rows = cost.rows ∧ (outerState cost lsc m).1.cols = cost.cols ∧
    (outerState cost lsc m).2.rows = cost.rows ∧ (outerState cost lsc m).2.cols = cost.cols ∧
    (∀ r c, cost.rows - 1 - m ≤ r → r + 1 ≤ cost.rows → c < cost.cols →
        (outerState cost lsc m).2.get r c = futM cost lsc r c) ∧
    (∀ r c, cost.rows - 1 - m ≤ r → r + 1 < cost.rows → c < cost.cols →
        (outerState cost lsc m).1.get r c
          = ((Viterbi.stepPath cost.cols (futM cost lsc (r + 1)) (cost.get (r + 1)) (lsc.get r) c : Nat) : Int)) := by
  induction m with
  | zero =>
    refine ⟨by simp [outerState, Py.Arr2.const], by simp [outerState, Py.Arr2.const],
      by simp [outerState, Py.Arr2.const], by simp [outerState, Py.Arr2.const], ?_, ?_⟩
    · intro r c h1 h2 _
      have : r + 1 = cost.rows := by omega
      rw [futM_last cost lsc r this]
      simp [outerState, Py.Arr2.const]
    · intro r c h1 h2 _
      omega
  | succ k ih =>
    obtain ⟨h1, h2, h3, h4, h5, h6⟩ := ih (by omega)
    have hstep : outerState cost lsc (k + 1)
        = outerBody cost lsc (cost.cols : Int) (((cost.rows - 1 - 1 - k : Nat) : Nat) : Int) (outerState cost lsc k) := by
      simp only [outerState, List.range_succ, List.foldl_append, List.foldl_cons, List.foldl_nil]
    generalize hi : cost.rows - 1 - 1 - k = i at hstep
    have hi1 : i + 1 = cost.rows - 1 - k := by omega
    have hi2 : i + 1 < cost.rows := by omega
    generalize outerState cost lsc k = s at *
    rw [hstep]
    simp only [outerBody]
    rw [forEach_range]
    -- the vector of totals and its argmin
    set total : Py.Arr1 α :=
      Py.Arr1.addScalar (Py.Arr1.add (s.2.row ((i : Int) + 1)) (cost.row ((i : Int) + 1))) (lsc.get1 (i : Int)) with htotal
    have htn : total.n = cost.cols := by simp [htotal, Py.Arr1.addScalar, Py.Arr1.add, Py.Arr2.row, h4]
    have htget : ∀ c, c < cost.cols →
        total.get c = Viterbi.totalVals (futM cost lsc (i + 1)) (cost.get (i + 1)) (lsc.get i) c := by
      intro c hc
      simp only [htotal, Py.Arr1.addScalar, Py.Arr1.add, Py.Arr2.row, Py.Arr1.get1, idx_nat_succ, idx_nat, h3, hl,
        Viterbi.totalVals]
      rw [h5 (i + 1) c (by omega) (by omega) hc]
    have ham : total.argmin = ((Viterbi.argmin (Viterbi.totalVals (futM cost lsc (i + 1)) (cost.get (i + 1)) (lsc.get i)) cost.cols : Nat) : Int) := by
      simp only [Py.Arr1.argmin, htn, pyArgminUpTo_eq, Viterbi.argmin]
      congr 1
      apply Viterbi.argminUpTo_congr
      intro c hc
      exact htget c (by omega)
    rw [ham]
    set a := Viterbi.argmin (Viterbi.totalVals (futM cost lsc (i + 1)) (cost.get (i + 1)) (lsc.get i)) cost.cols with ha
    have halt : a < cost.cols := Viterbi.argmin_lt _ hK
    obtain ⟨g1, g2, g3, g4, g5, g6⟩ :=
      inner_loop cost.rows cost.cols i a total (lsc.get1 (i : Int)) s.1 s.2 ⟨h1, h2⟩ ⟨h3, h4⟩ htn cost.cols
    have hb : lsc.get1 (i : Int) = lsc.get i := by simp [Py.Arr1.get1, idx_nat]
    refine ⟨g1, g2, g3, g4, ?_, ?_⟩
    · intro r c hr1 hr2 hc
      rw [g6]
      by_cases hri : r = i
      · subst hri
        rw [if_pos ⟨rfl, hc⟩, futM_step cost lsc r hi2]
        simp only [Viterbi.stepFuture, ← ha, hb]
        rw [htget c hc, htget a halt]
      · rw [if_neg (by tauto)]
        exact h5 r c (by omega) hr2 hc
    · intro r c hr1 hr2 hc
      rw [g5]
      by_cases hri : r = i
      · subst hri
        rw [if_pos ⟨rfl, hc⟩]
        simp only [Viterbi.stepPath, ← ha, hb]
        rw [htget c hc, htget a halt]
        split <;> rfl
      · rw [if_neg (by tauto)]
        exact h6 r c (by omega) hr2 hc


/-- labels along a path matrix given as a function of the row index -/
def labs (g : Nat → Nat → Nat) (c : Nat) : Nat → Nat
  | 0 => c
  | j + 1 => g j (labs g c j)

omit [Zero α] [Add α] [Sub α] [LT α] [DecidableLT α] in
theorem labs_shift (g : Nat → Nat → Nat) (c : Nat) : ∀ j, labs (g ∘ Nat.succ) (g 0 c) j = labs g c (j + 1)
  | 0 => rfl
  | j + 1 => by
    show (g ∘ Nat.succ) j (labs (g ∘ Nat.succ) (g 0 c) j) = g (j + 1) (labs g c (j + 1))
    rw [labs_shift g c j]; rfl

omit [Zero α] [Add α] [Sub α] [LT α] [DecidableLT α] in
theorem follow_map_range (n : Nat) : ∀ (g : Nat → Nat → Nat) (c : Nat),
    c :: Viterbi.follow ((List.range n).map g) c = (List.range (n + 1)).map (labs g c) := by
  induction n with
  | zero => intro g c; rfl
  | succ k ih =>
    intro g c
    rw [List.range_succ_eq_map, List.map_cons, List.map_map, Viterbi.follow]
    rw [ih (g ∘ Nat.succ) (g 0 c)]
    rw [List.range_succ_eq_map (n := k + 1), List.map_cons, List.map_map]
    congr 1
    apply List.map_congr_left
    intro j _
    exact labs_shift g c j

/-- the rows of the model's path matrix from row `r` on -/
theorem back_snd_eq (cost : Py.Arr2 α) (lsc : Py.Arr1 α) (n : Nat) : ∀ r, r + 1 + n = cost.rows →
    (Viterbi.back cost.cols ((ptsOf cost lsc).drop r)).2
      = (List.range n).map (fun j => Viterbi.stepPath cost.cols (futM cost lsc (r + j + 1)) (cost.get (r + j + 1))
          (lsc.get (r + j))) := by
  induction n with
  | zero =>
    intro r h
    rw [ptsOf_drop_last cost lsc r (by omega)]
    rfl
  | succ k ih =>
    intro r h
    have hr : r + 1 < cost.rows := by omega
    rw [ptsOf_drop cost lsc r hr]
    simp only [Viterbi.back]
    rw [futM_step.ptsOf_drop_eq_tail cost lsc r hr, ih (r + 1) (by omega)]
    rw [List.range_succ_eq_map, List.map_cons, List.map_map]
    congr 1
    apply List.map_congr_left
    intro j _
    simp only [Function.comp]
    have e1 : r + 1 + j + 1 = r + (j + 1) + 1 := by omega
    have e2 : r + 1 + j = r + (j + 1) := by omega
    rw [e1, e2]

/-- path matrix rows as a function of the row index -/
def pathRow (cost : Py.Arr2 α) (lsc : Py.Arr1 α) (j : Nat) : Nat → Nat :=
  Viterbi.stepPath cost.cols (futM cost lsc (j + 1)) (cost.get (j + 1)) (lsc.get j)

theorem labs_lt (cost : Py.Arr2 α) (lsc : Py.Arr1 α) (hK : 0 < cost.cols) (c : Nat) (hc : c < cost.cols) :
    ∀ j, labs (pathRow cost lsc) c j < cost.cols
  | 0 => hc
  | j + 1 => Viterbi.stepPath_lt _ hK _ _ _ _ (labs_lt cost lsc hK c hc j)

theorem path_loop (cost : Py.Arr2 α) (lsc : Py.Arr1 α) (pm : Py.Arr2 Int) (hK : 0 < cost.cols)
    (hpm : pm.rows = cost.rows ∧ pm.cols = cost.cols)
    (hget : ∀ r c, r + 1 < cost.rows → c < cost.cols → pm.get r c = ((pathRow cost lsc r c : Nat) : Int))
    (c0 : Nat) (hc0 : c0 < cost.cols) (m : Nat) (hm : m + 1 ≤ cost.rows) :
    (List.range m).foldl (fun p (k : Nat) => pathBody pm (k : Int) p)
        ((List.range cost.rows).map (fun j => if j ≤ 0 then ((labs (pathRow cost lsc) c0 j : Nat) : Int) else -1))
      = (List.range cost.rows).map (fun j => if j ≤ m then ((labs (pathRow cost lsc) c0 j : Nat) : Int) else -1) := by
  induction m with
  | zero => rfl
  | succ k ih =>
    rw [List.range_succ, List.foldl_append, ih (by omega)]
    simp only [List.foldl_cons, List.foldl_nil, pathBody]
    have hgi : Py.getItem ((List.range cost.rows).map
        (fun j => if j ≤ k then ((labs (pathRow cost lsc) c0 j : Nat) : Int) else -1)) (k : Int)
        = ((labs (pathRow cost lsc) c0 k : Nat) : Int) := by
      rw [getItem_natCast_map _ _ _ (by omega)]
      simp
    rw [hgi]
    have hlt := labs_lt cost lsc hK c0 hc0 k
    have hval : pm.get2 (k : Int) ((labs (pathRow cost lsc) c0 k : Nat) : Int)
        = ((labs (pathRow cost lsc) c0 (k + 1) : Nat) : Int) := by
      simp only [Py.Arr2.get2, idx_nat, hpm.1, hpm.2]
      rw [hget k _ (by omega) hlt]
      rfl
    rw [hval]
    have e : (k : Int) + 1 = ((k + 1 : Nat) : Int) := by push_cast; rfl
    rw [e]
    unfold Py.setItem
    rw [idx_nat]
    apply List.ext_getElem
    · simp
    · intro j h1 h2
      simp only [List.length_set, List.length_map, List.length_range] at h1
      simp only [List.getElem_set, List.getElem_map, List.getElem_range]
      by_cases hj : k + 1 = j
      · subst hj; simp
      · rw [if_neg hj]
        have : (j ≤ k + 1) = (j ≤ k) := by apply propext; omega
        simp only [this]


theorem lsc_n (T : Nat) (sov : Py.ScalarOrVec α) :
    (Py.broadcastAdd (Py.Arr1.const (T : Int) (0 : α)) sov).n = T := by
  cases sov <;> simp [Py.broadcastAdd, Py.Arr1.addScalar, Py.Arr1.add, Py.Arr1.const]

end

end FastTicc.PyLemmas

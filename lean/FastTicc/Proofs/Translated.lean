/-
Helper lemmas about the Python primitives of `Model/Py.lean` (ranges, loops as folds, true division,
prefix sums, slices), used by `Props/Translated.lean`.
-/
import FastTicc.Generated.Kernels
import FastTicc.Model.Stack
import FastTicc.Model.Index
import Mathlib.Data.Rat.Floor
import Mathlib.Tactic.Ring
import Mathlib.Tactic.Linarith
open FastTicc

namespace FastTicc.PyLemmas

theorem rangeLen_zero_one (n : Nat) : Py.rangeLen 0 n 1 = n := by
  simp [Py.rangeLen]

theorem range_zero_one (n : Nat) : Py.range 0 n 1 = (List.range n).map (fun (k : Nat) => (k : Int)) := by
  unfold Py.range
  rw [rangeLen_zero_one]
  apply List.map_congr_left
  intro k _
  simp

theorem rat_floor_eq (q : Rat) : q.floor = ⌊q⌋ := by
  rw [Rat.floor_def, Rat.floor_def']

theorem intOfRat_trueDiv_two (a : Nat) : Py.intOfRat (Py.trueDiv (a : Int) 2) = ((a / 2 : Nat) : Int) := by
  unfold Py.intOfRat Py.trueDiv
  have h : (0 : Rat) ≤ ((a : Int) : Rat) / ((2 : Int) : Rat) := by positivity
  rw [if_pos h, rat_floor_eq]
  have := Rat.floor_intCast_div_natCast (a : Int) 2
  simpa using this

theorem repeatList_single {α} (x : α) (n : Nat) : Py.repeatList [x] (n : Int) = List.replicate n x := by
  unfold Py.repeatList
  simp


open FastTicc.PyLemmas

theorem intOfRat_intCast (z : Int) : Py.intOfRat (z : Rat) = z := by
  unfold Py.intOfRat
  split <;> simp [rat_floor_eq, Rat.ceil_intCast]

theorem trueDiv_even (a : Int) (h : a % 2 = 0) : Py.trueDiv a 2 = ((a / 2 : Int) : Rat) := by
  unfold Py.trueDiv
  obtain ⟨k, rfl⟩ : ∃ k, a = 2 * k := ⟨a / 2, by omega⟩
  simp

theorem mul_succ_even (r : Int) : (r * (r + 1)) % 2 = 0 := by
  rcases Int.emod_two_eq_zero_or_one r with h | h
  · simp [Int.mul_emod, h]
  · have : (r + 1) % 2 = 0 := by omega
    simp [Int.mul_emod, this]

theorem forEach_range {σ} (n : Nat) (init : σ) (body : Int → σ → σ) :
    Py.forEach (Py.range 0 n 1) init body = (List.range n).foldl (fun s (k : Nat) => body (k : Int) s) init := by
  unfold Py.forEach
  rw [range_zero_one, List.foldl_map]

theorem getItem_append_last {α} [Inhabited α] (l : List α) (x : α) : Py.getItem (Py.append l x) (-1) = x := by
  unfold Py.getItem Py.append Py.idx
  simp

theorem foldl_append_map {α β} (f : α → β) (l : List α) (init : List β) :
    l.foldl (fun acc a => acc ++ [f a]) init = init ++ l.map f := by
  induction l generalizing init with
  | nil => simp
  | cons a t ih => simp [ih]

theorem foldl_congr_mem {α β} (l : List α) (f g : β → α → β) (init : β)
    (h : ∀ acc a, a ∈ l → f acc a = g acc a) : l.foldl f init = l.foldl g init := by
  induction l generalizing init with
  | nil => rfl
  | cons a t ih =>
    simp only [List.foldl_cons]
    rw [h init a (by simp), ih _ (fun acc x hx => h acc x (by simp [hx]))]

theorem sum_foldl (l : List Nat) (acc : Int) :
    (l.map (fun (x : Nat) => (x : Int))).foldl (· + ·) acc = acc + ((l.sum : Nat) : Int) := by
  induction l generalizing acc with
  | nil => simp
  | cons a t ih => simp [ih]; ring

theorem sum_natCast (l : List Nat) : Py.sum (l.map (fun (x : Nat) => (x : Int))) = ((l.sum : Nat) : Int) := by
  unfold Py.sum; rw [sum_foldl]; simp

def pref (l : List Nat) (i : Nat) : Nat := (l.take i).sum

theorem accumulateFrom_natCast (l : List Nat) (a : Nat) :
    Py.accumulateFrom (a : Int) (l.map (fun (x : Nat) => (x : Int)))
      = (List.range l.length).map (fun i => ((a + pref l (i + 1) : Nat) : Int)) := by
  induction l generalizing a with
  | nil => rfl
  | cons x t ih =>
    simp only [List.map_cons, Py.accumulateFrom, List.length_cons, List.range_succ_eq_map, List.map_cons, List.map_map]
    have : (a : Int) + (x : Int) = ((a + x : Nat) : Int) := by push_cast; rfl
    rw [this, ih]
    congr 1
    simp [pref]
    intro i _
    ring

theorem accumulate_natCast (l : List Nat) :
    Py.accumulate (l.map (fun (x : Nat) => (x : Int)))
      = (List.range l.length).map (fun i => ((pref l (i + 1) : Nat) : Int)) := by
  have := accumulateFrom_natCast l 0
  simpa [Py.accumulate] using this

theorem getItem_natCast_map (f : Nat → Int) (n i : Nat) (h : i < n) :
    Py.getItem ((List.range n).map f) (i : Int) = f i := by
  unfold Py.getItem Py.idx
  have : ¬ ((i : Int) < 0) := by omega
  simp [this, h]

theorem pref_le_sum (l : List Nat) (i : Nat) : pref l i ≤ l.sum := by
  unfold pref
  conv => rhs; rw [← List.take_append_drop i l]
  rw [List.sum_append_nat]
  omega

theorem pref_succ (l : List Nat) (i : Nat) (h : i < l.length) : pref l (i + 1) = pref l i + l[i] := by
  unfold pref
  rw [List.take_succ_eq_append_getElem h, List.sum_append_nat]
  simp

theorem slice_natCast {α} (l : List α) (a b : Nat) (ha : a ≤ b) (hb : b ≤ l.length) :
    Py.slice l (a : Int) (b : Int) = (l.drop a).take (b - a) := by
  unfold Py.slice Py.sliceBound
  have h1 : ¬ ((a : Int) < 0) := by omega
  have h2 : ¬ ((b : Int) < 0) := by omega
  simp only [h1, h2, if_false, Int.toNat_natCast]
  rw [Nat.min_eq_left (show a ≤ l.length by omega), Nat.min_eq_left hb]

theorem splitJoint_eq_map {α} (l : List α) (lens : List Nat) :
    Stack.splitJoint l lens
      = (List.range lens.length).map (fun i => (l.drop (pref lens i)).take (lens.getD i 0)) := by
  induction lens generalizing l with
  | nil => rfl
  | cons n t ih =>
    simp only [Stack.splitJoint, List.length_cons, List.range_succ_eq_map, List.map_cons, List.map_map]
    congr 1
    rw [ih]
    apply List.map_congr_left
    intro i _
    simp [pref, Function.comp, Nat.add_comm]

theorem stack_accumulate_eq (l : List Nat) :
    Stack.accumulate l = (List.range l.length).map (fun i => pref l (i + 1)) := by
  induction l with
  | nil => rfl
  | cons x t ih =>
    simp only [Stack.accumulate, List.length_cons, List.range_succ_eq_map, List.map_cons, List.map_map, ih]
    congr 1

theorem pref_pos (l : List Nat) (hpos : ∀ x ∈ l, 0 < x) (i : Nat) (hi : i < l.length) : 0 < pref l (i + 1) := by
  cases l with
  | nil => simp at hi
  | cons x t =>
    have := hpos x (by simp)
    simp [pref]
    omega

end FastTicc.PyLemmas

/- Helper lemmas for properties C06 and C16. -/
import FastTicc.Model.Result
import Mathlib.Algebra.Order.Field.Basic
import Mathlib.Algebra.BigOperators.Group.List.Basic
import Mathlib.Algebra.Order.Group.Abs
import Mathlib.Data.List.SplitBy
import Mathlib.Tactic.Ring

namespace FastTicc.Result

/-! ### `foldl (· + ·) 0` is `List.sum` -/

theorem foldl_add_eq_sum {α : Type} [AddCommMonoid α] (l : List α) :
    l.foldl (· + ·) 0 = l.sum := by
  rw [List.sum_eq_foldl]

theorem foldl_add_nat_eq_sum (l : List Nat) : l.foldl (· + ·) 0 = l.sum := by
  rw [List.sum_eq_foldl]

/-! ### grouping by key -/

section group
variable {β : Type}

/-- a point is keyInRange when its label is a cluster index (not the `-1` marker). -/
def keyInRange (K : Nat) (l : Int) : Bool := decide (0 ≤ l ∧ l < (K : Int))

theorem keyInRange_zero (l : Int) : keyInRange 0 l = false := by
  simp only [keyInRange, decide_eq_false_iff_not]
  omega

theorem keyInRange_succ (K : Nat) (l : Int) :
    keyInRange (K + 1) l = (keyInRange K l || (l == (K : Int))) := by
  simp only [keyInRange]
  rw [Bool.eq_iff_iff]
  simp only [decide_eq_true_eq, Bool.or_eq_true, beq_iff_eq]
  omega

/-- filtering by a disjoint union of two predicates. -/
theorem filter_or_perm (p q : β → Bool) (hpq : ∀ x, p x = true → q x = false) (l : List β) :
    (l.filter p ++ l.filter q).Perm (l.filter (fun x => p x || q x)) := by
  have h := List.filter_append_perm p (l.filter (fun x => p x || q x))
  rw [List.filter_filter, List.filter_filter] at h
  have e1 : l.filter (fun a => p a && (p a || q a)) = l.filter p := by
    apply List.filter_congr
    intro x _
    cases p x <;> simp
  have e2 : l.filter (fun a => (!p a) && (p a || q a)) = l.filter q := by
    apply List.filter_congr
    intro x _
    have := hpq x
    cases hp : p x <;> simp_all
  rw [e1, e2] at h
  exact h

/-- grouping a keyed list by the keys `0..K-1` permutes the entries whose key is in range. -/
theorem group_perm (K : Nat) (l : List (Int × β)) :
    (((List.range K).map fun (k : Nat) =>
        (l.filter (fun (p : Int × β) => p.1 == Int.ofNat k)).map (fun (p : Int × β) => p.2)).flatten).Perm
      ((l.filter (fun p => keyInRange K p.1)).map (·.2)) := by
  induction K with
  | zero => simp [keyInRange_zero]
  | succ K ih =>
    rw [List.range_succ, List.map_append, List.flatten_append]
    simp only [List.map_cons, List.map_nil, List.flatten_cons, List.flatten_nil, List.append_nil]
    refine (List.Perm.append_right _ ih).trans ?_
    rw [← List.map_append]
    apply List.Perm.map
    have h := filter_or_perm (fun (p : Int × β) => keyInRange K p.1)
      (fun (p : Int × β) => p.1 == Int.ofNat K) ?_ l
    · refine h.trans (List.Perm.of_eq ?_)
      apply List.filter_congr
      intro x _
      rw [keyInRange_succ]
      rfl
    · intro x hx
      simp only [keyInRange, decide_eq_true_eq] at hx
      simp only [Int.ofNat_eq_natCast, beq_eq_false_iff_ne, ne_eq]
      omega

theorem filter_zip_fst_length (f : Int → Bool) (labels : List Int) (ll : List β)
    (h : labels.length = ll.length) :
    ((labels.zip ll).filter (fun p => f p.1)).length = (labels.filter f).length := by
  have h1 : ((labels.zip ll).filter (fun p => f p.1)).map (·.1) = labels.filter f := by
    have : (fun (p : Int × β) => f p.1) = f ∘ Prod.fst := rfl
    rw [this, ← List.filter_map, List.map_fst_zip (le_of_eq h)]
  rw [← h1, List.length_map]

end group

/-! ### sorting -/

theorem mergeSort_eq_of_perm {α : Type} [LinearOrder α] (l₁ l₂ : List α) (h : l₁.Perm l₂) :
    l₁.mergeSort (fun a b => decide (a ≤ b)) = l₂.mergeSort (fun a b => decide (a ≤ b)) := by
  have tr : ∀ (a b c : α), decide (a ≤ b) = true → decide (b ≤ c) = true →
      decide (a ≤ c) = true := by
    intro a b c hab hbc
    simp only [decide_eq_true_eq] at *
    exact le_trans hab hbc
  have tot : ∀ (a b : α), (decide (a ≤ b) || decide (b ≤ a)) = true := by
    intro a b
    simp only [Bool.or_eq_true, decide_eq_true_eq]
    exact le_total a b
  apply List.Perm.eq_of_pairwise (le := fun a b => decide (a ≤ b) = true)
  · intro a b _ _ hab hba
    simp only [decide_eq_true_eq] at hab hba
    exact le_antisymm hab hba
  · exact List.pairwise_mergeSort tr tot l₁
  · exact List.pairwise_mergeSort tr tot l₂
  · exact ((List.mergeSort_perm l₁ _).trans h).trans (List.mergeSort_perm l₂ _).symm

/-! ### C16: runs -/

/-- the labels that open a new run after a run of `b`s has started. -/
def runTail : Nat → List Nat → List Nat
  | _, [] => []
  | b, x :: xs => if b = x then runTail x xs else x :: runTail x xs

theorem splitByLoop_heads (l : List Nat) : ∀ (b : Nat) (g : List Nat) (acc : List (List Nat)),
    (List.splitBy.loop (· == ·) l b g acc).filterMap List.head? =
      acc.reverse.filterMap List.head? ++
        g.getLast?.getD b :: runTail b l := by
  induction l with
  | nil =>
    intro b g acc
    simp [List.splitBy.loop, runTail, List.filterMap_append, List.head?_reverse]
  | cons x xs ih =>
    intro b g acc
    by_cases hbx : b = x
    · subst hbx
      simp only [List.splitBy.loop, beq_self_eq_true, runTail, if_true]
      rw [ih]
      simp [List.getLast?_cons]
    · have hbx' : (b == x) = false := by simpa using hbx
      simp only [List.splitBy.loop, hbx', runTail, if_neg hbx]
      rw [ih]
      simp [List.filterMap_append, List.head?_reverse]

theorem splitBy_heads_cons (a : Nat) (l : List Nat) :
    ((a :: l).splitBy (· == ·)).filterMap List.head? = a :: runTail a l := by
  rw [List.splitBy, splitByLoop_heads]
  simp

theorem runsParamsAux_some (params : Nat → Nat) (b : Nat) (l : List Nat) :
    runsParamsAux params (some b) l = ((runTail b l).map params).sum := by
  induction l generalizing b with
  | nil => simp [runsParamsAux, runTail]
  | cons x xs ih =>
    by_cases hbx : b = x
    · subst hbx
      simp [runsParamsAux, runTail, ih]
    · simp [runsParamsAux, runTail, ih, hbx]

theorem runsParamsAux_congr (params params' : Nat → Nat) (last : Option Nat) (labels : List Nat)
    (h : ∀ l ∈ labels, params l = params' l) :
    runsParamsAux params last labels = runsParamsAux params' last labels := by
  induction labels generalizing last with
  | nil => rfl
  | cons x xs ih =>
    simp only [runsParamsAux]
    rw [h x List.mem_cons_self, ih _ (fun l hl => h l (List.mem_cons_of_mem _ hl))]

theorem runsParamsAux_replicate (params : Nat → Nat) (k n : Nat) :
    runsParamsAux params (some k) (List.replicate n k) = 0 := by
  induction n with
  | zero => rfl
  | succ n ih => simp [List.replicate_succ, runsParamsAux, ih]

/-! ### C16: absolute value -/

theorem absv_eq_abs {α : Type} [Field α] [LinearOrder α] [IsStrictOrderedRing α] (x : α) :
    absv x = |x| := by
  unfold absv
  split
  · next h => exact (abs_of_neg h).symm
  · next h => exact (abs_of_nonneg (not_lt.mp h)).symm

end FastTicc.Result

/- Helper lemmas for properties C04, C07 (mask), C10. -/
import FastTicc.Model.Stack

namespace FastTicc.Stack

/-! ### flatMap over a range of equal-length pieces -/

theorem length_flatMap_range {α} (f : Nat → List α) (N W : Nat)
    (h : ∀ j, j < W → (f j).length = N) : ((List.range W).flatMap f).length = W * N := by
  induction W with
  | zero => simp
  | succ W ih =>
    have h1 := ih (fun j hj => h j (Nat.lt_succ_of_lt hj))
    have h2 := h W (Nat.lt_succ_self W)
    simp [List.range_succ, List.flatMap_append, h1, h2, Nat.succ_mul]

theorem getElem?_flatMap_range {α} (f : Nat → List α) (N W : Nat)
    (h : ∀ j, j < W → (f j).length = N) (j k : Nat) (hj : j < W) (hk : k < N) :
    ((List.range W).flatMap f)[j * N + k]? = (f j)[k]? := by
  induction W with
  | zero => omega
  | succ W ih =>
    have hlen := length_flatMap_range f N W (fun j hj => h j (Nat.lt_succ_of_lt hj))
    have ih' := ih (fun j hj => h j (Nat.lt_succ_of_lt hj))
    rw [List.range_succ, List.flatMap_append]
    by_cases hjW : j < W
    · have hlt : j * N + k < W * N := by
        have : (j + 1) * N ≤ W * N := Nat.mul_le_mul_right N hjW
        rw [Nat.succ_mul] at this
        omega
      rw [List.getElem?_append_left (by rw [hlen]; exact hlt)]
      exact ih' hjW
    · have hjeq : j = W := by omega
      subst hjeq
      rw [List.getElem?_append_right (by rw [hlen]; omega)]
      simp [hlen]

theorem stackRow_length {α} (d : List (List α)) (N W i : Nat)
    (hN : ∀ row ∈ d, row.length = N) (hi : i + W ≤ d.length) :
    (stackRow d W i).length = W * N := by
  unfold stackRow
  apply length_flatMap_range
  intro j hj
  have hlt : i + j < d.length := by omega
  simp [List.getD_eq_getElem?_getD, List.getElem?_eq_getElem hlt]
  exact hN _ (List.getElem_mem hlt)

theorem stack_getElem? {α} (d : List (List α)) (W i : Nat) (hi : i < d.length + 1 - W) :
    (stack d W)[i]? = some (stackRow d W i) := by
  simp [stack, List.getElem?_map, List.getElem?_range hi]

theorem stack_length {α} (d : List (List α)) (W : Nat) :
    (stack d W).length = stackedLen d.length W := by
  simp [stack, stackedLen]

theorem stackMulti_cons {α} (d : List (List α)) (ds : List (List (List α))) (W : Nat) :
    stackMulti (d :: ds) W = stack d W ++ stackMulti ds W := by
  simp [stackMulti]

/-! ### splitJoint -/

theorem splitJoint_lengths {β} (l : List β) (lens : List Nat) (h : l.length = lens.sum) :
    (splitJoint l lens).map List.length = lens := by
  induction lens generalizing l with
  | nil => simp [splitJoint]
  | cons n ns ih =>
    simp only [List.sum_cons] at h
    simp only [splitJoint, List.map_cons, List.length_take]
    rw [ih (l.drop n) (by simp; omega)]
    congr 1
    omega

theorem splitJoint_flatten {β} (l : List β) (lens : List Nat) (h : l.length = lens.sum) :
    (splitJoint l lens).flatten = l := by
  induction lens generalizing l with
  | nil =>
    simp at h
    simp [splitJoint, h]
  | cons n ns ih =>
    simp only [List.sum_cons] at h
    simp only [splitJoint, List.flatten_cons]
    rw [ih (l.drop n) (by simp; omega)]
    exact List.take_append_drop n l

theorem splitJoint_length {β} (l : List β) (lens : List Nat) :
    (splitJoint l lens).length = lens.length := by
  induction lens generalizing l with
  | nil => simp [splitJoint]
  | cons n ns ih => simp [splitJoint, ih]

/-! ### padMissing -/

theorem front_le (W : Nat) : frontLen W ≤ W - 1 := by
  unfold frontLen; omega

theorem padMissing_length (l : List Int) (W : Nat) :
    (padMissing l W).length = l.length + (W - 1) := by
  have := front_le W
  simp [padMissing, backLen]
  omega

theorem splitAndPad_lengths (joint : List Int) (Ts : List Nat) (W : Nat)
    (hW : 1 ≤ W) (hTs : ∀ T ∈ Ts, W ≤ T)
    (hlen : joint.length = (Ts.map (fun T => stackedLen T W)).sum) :
    (splitAndPad joint (Ts.map (fun T => stackedLen T W)) W).map List.length = Ts := by
  have h1 := splitJoint_lengths joint _ hlen
  unfold splitAndPad
  rw [List.map_map]
  have : (List.length ∘ fun l => padMissing l W) = (fun n => n + (W - 1)) ∘ List.length := by
    funext l; simp [padMissing_length]
  rw [this, ← List.map_map, h1, List.map_map]
  conv => rhs; rw [← List.map_id Ts]
  apply List.map_congr_left
  intro T hT
  have := hTs T hT
  simp [stackedLen]
  omega

/-! ### accumulate / mask -/

theorem le_of_mem_accumulate (y : Nat) (ys : List Nat) (e : Nat)
    (he : e ∈ accumulate (y :: ys)) : y ≤ e := by
  simp only [accumulate, List.mem_cons, List.mem_map] at he
  rcases he with rfl | ⟨a, _, rfl⟩ <;> omega

theorem accumulate_ne_nil (y : Nat) (ys : List Nat) : accumulate (y :: ys) ≠ [] := by
  simp [accumulate]

/-- the list of zero positions of `maskTemplate`. -/
def ends' (lens : List Nat) : List Nat := ((accumulate lens).dropLast).map (· - 1)

theorem maskTemplate_eq (lens : List Nat) :
    maskTemplate lens =
      (List.range lens.sum).map (fun i => if i ∈ ends' lens then 0 else 1) := by
  simp [maskTemplate, ends']

theorem mem_ends'_cons_cons (x y : Nat) (ys : List Nat) (hy : 0 < y) (i : Nat) :
    i ∈ ends' (x :: y :: ys) ↔ i = x - 1 ∨ (x ≤ i ∧ i - x ∈ ends' (y :: ys)) := by
  have hne := accumulate_ne_nil y ys
  have hd : (accumulate (x :: y :: ys)).dropLast
      = x :: ((accumulate (y :: ys)).dropLast).map (x + ·) := by
    rw [accumulate, List.dropLast_cons_of_ne_nil (by simpa using hne), List.map_dropLast]
  unfold ends'
  rw [hd]
  simp only [List.map_cons, List.mem_cons, List.mem_map]
  constructor
  · rintro (h | ⟨a, ⟨b, hb, rfl⟩, rfl⟩)
    · exact Or.inl h
    · have := le_of_mem_accumulate y ys b (List.dropLast_subset _ hb)
      refine Or.inr ⟨by omega, b, hb, by omega⟩
  · rintro (h | ⟨hx, b, hb, hbi⟩)
    · exact Or.inl h
    · have := le_of_mem_accumulate y ys b (List.dropLast_subset _ hb)
      exact Or.inr ⟨x + b, ⟨b, hb, rfl⟩, by omega⟩

theorem maskTemplate_single (n : Nat) : maskTemplate [n] = List.replicate n 1 := by
  simp [maskTemplate, accumulate, List.eq_replicate_iff]

/-- structural recursion for the mask: a positive-length series contributes
`x - 1` ones followed by a zero, when another series follows. -/
theorem maskTemplate_cons_cons (x y : Nat) (ys : List Nat) (hx : 0 < x) (hy : 0 < y) :
    maskTemplate (x :: y :: ys) = List.replicate (x - 1) 1 ++ 0 :: maskTemplate (y :: ys) := by
  rw [maskTemplate_eq, maskTemplate_eq, List.sum_cons, List.range_add, List.map_append]
  have hA : (List.range x).map (fun i => if i ∈ ends' (x :: y :: ys) then 0 else 1)
      = List.replicate (x - 1) 1 ++ [0] := by
    have h1 : (List.range x).map (fun i => if i ∈ ends' (x :: y :: ys) then 0 else 1)
        = (List.range x).map (fun i => if i = x - 1 then 0 else 1) := by
      apply List.map_congr_left
      intro i hi
      have hi' : i < x := by simpa using hi
      have : ¬ (x ≤ i ∧ i - x ∈ ends' (y :: ys)) := by omega
      simp [mem_ends'_cons_cons x y ys hy, this]
    rw [h1]
    obtain ⟨m, rfl⟩ : ∃ m, x = m + 1 := ⟨x - 1, by omega⟩
    rw [List.range_succ, List.map_append]
    simp only [Nat.add_sub_cancel, List.map_cons, List.map_nil, if_true]
    congr 1
    rw [List.eq_replicate_iff]
    refine ⟨by simp, ?_⟩
    intro b hb
    simp only [List.mem_map, List.mem_range] at hb
    obtain ⟨a, ha, rfl⟩ := hb
    simp [Nat.ne_of_lt ha]
  have hB : ((List.range (y :: ys).sum).map (x + ·)).map
        (fun i => if i ∈ ends' (x :: y :: ys) then 0 else 1)
      = (List.range (y :: ys).sum).map (fun i => if i ∈ ends' (y :: ys) then 0 else 1) := by
    rw [List.map_map]
    apply List.map_congr_left
    intro i _
    simp only [Function.comp]
    have h1 : ¬ (x + i = x - 1) := by omega
    have h2 : x + i - x = i := by omega
    simp [mem_ends'_cons_cons x y ys hy, h1, h2]
  rw [hA, hB]
  simp

theorem seriesOf_cons (x : Nat) (xs : List Nat) (i : Nat) :
    seriesOf (x :: xs) i = if i < x then 0 else seriesOf xs (i - x) + 1 := rfl

theorem maskTemplate_length' (lens : List Nat) : (maskTemplate lens).length = lens.sum := by
  simp [maskTemplate]

theorem mask_zero_iff (lens : List Nat) (hpos : ∀ n ∈ lens, 0 < n) (i : Nat)
    (hi : i + 1 < lens.sum) :
    (maskTemplate lens)[i]? = some 0 ↔ seriesOf lens i ≠ seriesOf lens (i + 1) := by
  induction lens generalizing i with
  | nil => simp at hi
  | cons x xs ih =>
    cases xs with
    | nil =>
      simp at hi
      have h2 : i < x := by omega
      simp [maskTemplate_single, seriesOf_cons, hi, h2]
    | cons y ys =>
      have hx := hpos x (by simp)
      have hy := hpos y (by simp)
      have ih' := ih (fun n hn => hpos n (List.mem_cons_of_mem _ hn))
      rw [maskTemplate_cons_cons x y ys hx hy, seriesOf_cons x, seriesOf_cons x]
      by_cases h1 : i + 1 < x
      · have h2 : i < x := by omega
        rw [List.getElem?_append_left (by simp; omega)]
        simp [h1, h2, List.getElem?_replicate]
      · by_cases h2 : i + 1 = x
        · have h3 : i < x := by omega
          rw [List.getElem?_append_right (by simp; omega)]
          have h4 : i - (x - 1) = 0 := by omega
          simp [h1, h3, h4]
        · have h3 : ¬ i < x := by omega
          rw [List.getElem?_append_right (by simp; omega)]
          have h4 : i - (List.replicate (x - 1) 1).length = (i - x) + 1 := by simp; omega
          have h5 : i + 1 - x = (i - x) + 1 := by omega
          rw [h4, List.getElem?_cons_succ, h5, if_neg h1, if_neg h3]
          rw [ih' (i - x) (by simp only [List.sum_cons] at hi ⊢; omega)]
          simp

theorem mask_last (lens : List Nat) (hpos : ∀ n ∈ lens, 0 < n) (h : 0 < lens.sum) :
    (maskTemplate lens)[lens.sum - 1]? = some 1 := by
  induction lens with
  | nil => simp at h
  | cons x xs ih =>
    cases xs with
    | nil =>
      simp at h
      have h' : x - 1 < x := by omega
      simp [maskTemplate_single, h']
    | cons y ys =>
      have hx := hpos x (by simp)
      have hy := hpos y (by simp)
      have hS : 0 < (y :: ys).sum := by simp only [List.sum_cons]; omega
      have ih' := ih (fun n hn => hpos n (List.mem_cons_of_mem _ hn)) hS
      rw [maskTemplate_cons_cons x y ys hx hy, List.sum_cons]
      rw [List.getElem?_append_right (by simp; omega)]
      have h4 : x + (y :: ys).sum - 1 - (List.replicate (x - 1) 1).length
          = ((y :: ys).sum - 1) + 1 := by simp; omega
      rw [h4, List.getElem?_cons_succ, ih']

theorem mask_count (lens : List Nat) (hpos : ∀ n ∈ lens, 0 < n) :
    (maskTemplate lens).count 0 = lens.length - 1 := by
  induction lens with
  | nil => simp [maskTemplate]
  | cons x xs ih =>
    cases xs with
    | nil => simp [maskTemplate_single, List.count_replicate]
    | cons y ys =>
      have hx := hpos x (by simp)
      have hy := hpos y (by simp)
      have ih' := ih (fun n hn => hpos n (List.mem_cons_of_mem _ hn))
      rw [maskTemplate_cons_cons x y ys hx hy, List.count_append, List.count_cons_self, ih']
      simp [List.count_replicate]

end FastTicc.Stack

/- Helper lemmas for property C11 (index maps). -/
import FastTicc.Model.Index
import Mathlib.Data.List.Nodup
import Mathlib.Data.Nat.Sqrt
import Mathlib.Tactic.Ring
import Mathlib.Tactic.Abel

namespace FastTicc.Index.Aux

/-! ### Triangle arithmetic -/

theorem two_mul_tri (r : Nat) : 2 * (r * (r + 1) / 2) = r * (r + 1) := by
  have h : r * (r + 1) % 2 = 0 := by
    induction r with
    | zero => rfl
    | succ k ih =>
      have : (k + 1) * (k + 1 + 1) = k * (k + 1) + 2 * (k + 1) := by ring
      omega
  omega

@[simp] theorem rowIdx_length (n r : Nat) : (rowIdx n r).length = n - r := by
  simp [rowIdx]

/-- total length of the first `r` rows of `triuIdx n`. -/
def pre (n r : Nat) : Nat := ((List.range r).flatMap (rowIdx n)).length

theorem pre_zero (n : Nat) : pre n 0 = 0 := by simp [pre]

theorem pre_succ (n r : Nat) : pre n (r + 1) = pre n r + (n - r) := by
  simp [pre, List.range_succ, List.flatMap_append]

theorem pre_formula (n r : Nat) (h : r ≤ n) : 2 * pre n r + r * r = 2 * (n * r) + r := by
  induction r with
  | zero => simp [pre_zero]
  | succ k ih =>
    have ih := ih (by omega)
    rw [pre_succ]
    have e1 : (k + 1) * (k + 1) = k * k + 2 * k + 1 := by ring
    have e2 : n * (k + 1) = n * k + n := by ring
    omega

/-- indexing into a `flatMap` over `range`: skip the first `r` blocks. -/
theorem getElem?_flatMap_range {β : Type} (f : Nat → List β) (n r k : Nat) (hr : r < n)
    (hk : k < (f r).length) :
    ((List.range n).flatMap f)[((List.range r).flatMap f).length + k]? = (f r)[k]? := by
  obtain ⟨d, rfl⟩ : ∃ d, n = r + (d + 1) := ⟨n - r - 1, by omega⟩
  rw [List.range_add, List.flatMap_append, List.range_succ_eq_map, List.map_cons,
    List.flatMap_cons]
  rw [List.getElem?_append_right (by omega)]
  simp only [Nat.add_sub_cancel_left, Nat.add_zero]
  exact List.getElem?_append_left hk

theorem triuIdx_getElem? (n r c : Nat) (hrc : r ≤ c) (hc : c < n) :
    (triuIdx n)[pre n r + (c - r)]? = some (r, c) := by
  unfold triuIdx pre
  rw [getElem?_flatMap_range _ n r (c - r) (by omega) (by simp; omega)]
  have : c - r < n - r := by omega
  simp [rowIdx, this]
  omega

theorem compressedIndex_eq (n r c : Nat) (hrc : r ≤ c) (hc : c < n) :
    compressedIndex r c n = pre n r + (c - r) := by
  have h1 := two_mul_tri r
  have h2 := pre_formula n r (by omega)
  have h3 : r * r ≤ n * r := Nat.mul_le_mul_right r (by omega)
  have e1 : r * (r + 1) = r * r + r := by ring
  have e2 : n * (r + 1) = n * r + n := by ring
  unfold compressedIndex sizeIncludingRow elementsAfter
  omega

theorem triuIdx_length (n : Nat) : (triuIdx n).length = n * (n + 1) / 2 := by
  have h1 := two_mul_tri n
  have h2 := pre_formula n n (Nat.le_refl n)
  have e1 : n * (n + 1) = n * n + n := by ring
  show pre n n = _
  omega

theorem compressedIndex_eq_rank (n r c : Nat) (hrc : r ≤ c) (hc : c < n) :
    (triuIdx n)[compressedIndex r c n]? = some (r, c) := by
  rw [compressedIndex_eq n r c hrc hc]
  exact triuIdx_getElem? n r c hrc hc

theorem mem_triuIdx (n r c : Nat) : (r, c) ∈ triuIdx n ↔ r ≤ c ∧ c < n := by
  simp only [triuIdx, rowIdx, List.mem_flatMap, List.mem_map, List.mem_range, Prod.mk.injEq]
  constructor
  · rintro ⟨a, ha, k, hk, rfl, rfl⟩
    omega
  · rintro ⟨h1, h2⟩
    exact ⟨r, by omega, c - r, by omega, rfl, by omega⟩

theorem triuIdx_nodup (n : Nat) : (triuIdx n).Nodup := by
  unfold triuIdx
  rw [List.nodup_flatMap]
  refine ⟨fun r _ => ?_, ?_⟩
  · unfold rowIdx
    refine List.nodup_range.map ?_
    intro a b h
    simpa using h
  · refine List.nodup_range.imp ?_
    intro a b hab p h1 h2
    simp only [rowIdx, List.mem_map, List.mem_range] at h1 h2
    obtain ⟨_, _, rfl⟩ := h1
    obtain ⟨_, _, h⟩ := h2
    simp only [Prod.mk.injEq] at h
    omega

theorem posOf_eq_compressedIndex (n r c : Nat) (hrc : r ≤ c) (hc : c < n) :
    posOf n r c = some (compressedIndex r c n) := by
  have hget := compressedIndex_eq_rank n r c hrc hc
  unfold posOf
  rw [List.findIdx?_eq_some_iff_getElem]
  obtain ⟨hlt, hval⟩ := List.getElem?_eq_some_iff.1 hget
  refine ⟨hlt, by simp [hval], ?_⟩
  intro j hj hp
  have hjlt : j < (triuIdx n).length := by omega
  have hj' : (triuIdx n)[j] = (r, c) := by
    simp only [Bool.and_eq_true, beq_iff_eq] at hp
    exact Prod.ext hp.1 hp.2
  have := (List.getElem_inj (triuIdx_nodup n)).1 (hj'.trans hval.symm)
  omega

theorem posOf_none (n r c : Nat) (h : c < r ∨ n ≤ c) : posOf n r c = none := by
  unfold posOf
  rw [List.findIdx?_eq_none_iff]
  rintro ⟨a, b⟩ hab
  rw [mem_triuIdx] at hab
  simp only [Bool.and_eq_false_iff, beq_eq_false_iff_ne, ne_eq]
  omega

theorem fullSize_tri (n : Nat) : fullSize (n * (n + 1) / 2) = n := by
  have h := two_mul_tri n
  have e : 8 * (n * (n + 1) / 2) + 1 = (2 * n + 1) * (2 * n + 1) := by
    have : (2 * n + 1) * (2 * n + 1) = 4 * (n * (n + 1)) + 1 := by ring
    omega
  unfold fullSize
  rw [e, Nat.sqrt_eq]
  omega

/-! ### compress / reinflate -/

section group
variable {α : Type}

theorem uncompressUpper_upper [Zero α] (v : List α) (n r c : Nat) (hrc : r ≤ c) (hc : c < n) :
    uncompressUpper v n r c = v.getD (compressedIndex r c n) 0 := by
  simp [uncompressUpper, posOf_eq_compressedIndex n r c hrc hc]

theorem uncompressUpper_lower [Zero α] (v : List α) (n r c : Nat) (h : c < r ∨ n ≤ c) :
    uncompressUpper v n r c = 0 := by
  simp [uncompressUpper, posOf_none n r c h]

theorem compress_length (M : Nat → Nat → α) (n : Nat) :
    (compress M n).length = n * (n + 1) / 2 := by
  simp [compress, triuIdx_length]

variable [AddCommGroup α]

theorem compress_reinflate (n : Nat) (v : List α) (hv : v.length = n * (n + 1) / 2) :
    compress (reinflate v) n = v := by
  have hfs : fullSize v.length = n := by rw [hv, fullSize_tri]
  apply List.ext_getElem
  · rw [compress_length, hv]
  · intro k h1 h2
    have hk : k < (triuIdx n).length := by rw [triuIdx_length, ← hv]; exact h2
    have hmem := List.getElem_mem hk
    have hget : (triuIdx n)[k]? = some (triuIdx n)[k] := List.getElem?_eq_getElem hk
    simp only [compress, List.getElem_map]
    generalize (triuIdx n)[k] = p at hmem hget
    obtain ⟨r, c⟩ := p
    rw [mem_triuIdx] at hmem
    have hidx : compressedIndex r c n = k := by
      have h3 := compressedIndex_eq_rank n r c hmem.1 hmem.2
      exact ((List.getElem?_inj (by
        exact (List.getElem?_eq_some_iff.1 h3).1) (triuIdx_nodup n)).1 (h3.trans hget.symm))
    have hU : uncompressUpper v n r c = v[k] := by
      rw [uncompressUpper_upper v n r c hmem.1 hmem.2, hidx]
      simp [List.getD_eq_getElem?_getD, h2]
    show upperToFull (uncompressUpper v (fullSize v.length)) r c = v[k]
    rw [hfs]
    unfold upperToFull
    by_cases hrc : r = c
    · subst hrc
      rw [if_pos rfl, hU]
      abel
    · rw [if_neg hrc, hU, uncompressUpper_lower v n c r (by omega)]
      abel

theorem reinflate_compress (n : Nat) (M : Nat → Nat → α)
    (hsym : ∀ r c, M r c = M c r) (r c : Nat) (hr : r < n) (hc : c < n) :
    reinflate (compress M n) r c = M r c := by
  have hfs : fullSize (compress M n).length = n := by rw [compress_length, fullSize_tri]
  have hU : ∀ r c, r ≤ c → c < n → uncompressUpper (compress M n) n r c = M r c := by
    intro r c hrc hc
    rw [uncompressUpper_upper _ n r c hrc hc]
    have h3 := compressedIndex_eq_rank n r c hrc hc
    simp [compress, List.getD_eq_getElem?_getD, h3]
  show upperToFull (uncompressUpper (compress M n) (fullSize (compress M n).length)) r c = M r c
  rw [hfs]
  unfold upperToFull
  rcases Nat.lt_trichotomy r c with h | h | h
  · rw [if_neg (by omega), hU r c (by omega) hc, uncompressUpper_lower _ n c r (by omega)]
    abel
  · subst h
    rw [if_pos rfl, hU r r (Nat.le_refl r) hr]
    abel
  · rw [if_neg (by omega), hU c r (by omega) hr, uncompressUpper_lower _ n r c (by omega),
      hsym r c]
    abel

theorem reinflate_symm (v : List α) (r c : Nat) : reinflate v r c = reinflate v c r := by
  unfold reinflate upperToFull
  by_cases h : r = c
  · subst h; rfl
  · rw [if_neg h, if_neg (fun h' => h h'.symm), add_comm]

end group

/-! ### Toeplitz classes -/

theorem divmod_unique (N q s X : Nat) (hs : s < N) (h : X = q * N + s) :
    X / N = q ∧ X % N = s := by
  subst h
  have hN : 0 < N := by omega
  constructor
  · rw [Nat.add_comm, Nat.add_mul_div_right _ _ hN, Nat.div_eq_of_lt hs, Nat.zero_add]
  · rw [Nat.add_comm, Nat.add_mul_mod_self_right, Nat.mod_eq_of_lt hs]

theorem mem_positions (b r c N W R C : Nat) :
    (R, C) ∈ positions b r c N W ↔ ∃ i, i < W - b ∧ R = i * N + r ∧ C = b * N + i * N + c := by
  simp only [positions, blockStarts, List.map_map, List.mem_map, List.mem_range,
    Function.comp, Prod.mk.injEq, Nat.zero_add]
  constructor
  · rintro ⟨i, hi, h1, h2⟩
    exact ⟨i, hi, h1.symm, h2.symm⟩
  · rintro ⟨i, hi, h1, h2⟩
    exact ⟨i, hi, h1.symm, h2.symm⟩

theorem class_size (b r c N W : Nat) : (positions b r c N W).length = W - b := by
  simp [positions, blockStarts]

theorem positions_upper (b r c N W : Nat) (hb : b < W) (hr : r < N) (hc : c < N)
    (h0 : b = 0 → r ≤ c) : ∀ p ∈ positions b r c N W, p.1 ≤ p.2 ∧ p.2 < N * W := by
  rintro ⟨R, C⟩ hp
  obtain ⟨i, hi, rfl, rfl⟩ := (mem_positions b r c N W R C).1 hp
  have h1 : (b + i + 1) * N ≤ W * N := Nat.mul_le_mul_right N (by omega)
  have e1 : (b + i + 1) * N = b * N + i * N + N := by ring
  have e2 : N * W = W * N := Nat.mul_comm N W
  show i * N + r ≤ b * N + i * N + c ∧ b * N + i * N + c < N * W
  constructor
  · by_cases hb0 : b = 0
    · have := h0 hb0
      omega
    · have : N ≤ b * N := Nat.le_mul_of_pos_left N (by omega)
      omega
  · omega

theorem class_toeplitz_equal (b r c N W : Nat) (hr : r < N) (hc : c < N) :
    ∀ p ∈ positions b r c N W,
      p.1 % N = r ∧ p.2 % N = c ∧ p.2 / N = p.1 / N + b := by
  rintro ⟨R, C⟩ hp
  obtain ⟨i, hi, hR, hC⟩ := (mem_positions b r c N W R C).1 hp
  have h1 := divmod_unique N i r R hr hR
  have h2 := divmod_unique N (i + b) c C hc (by rw [hC]; ring)
  show R % N = r ∧ C % N = c ∧ C / N = R / N + b
  rw [h1.1, h1.2, h2.1, h2.2]
  exact ⟨rfl, rfl, rfl⟩

theorem mem_positions_iff (b r c N W R C : Nat) (_hN : 0 < N) (hr : r < N) (hc : c < N)
    (hC : C < N * W) :
    (R, C) ∈ positions b r c N W ↔ (R % N = r ∧ C % N = c ∧ C / N = R / N + b) := by
  constructor
  · exact class_toeplitz_equal b r c N W hr hc (R, C)
  · rintro ⟨h1, h2, h3⟩
    rw [mem_positions]
    have hq : C / N < W := Nat.div_lt_of_lt_mul hC
    have eR := Nat.div_add_mod R N
    have eC := Nat.div_add_mod C N
    rw [h3] at eC
    have e1 : N * (R / N + b) = b * N + R / N * N := by ring
    have e2 : N * (R / N) = R / N * N := Nat.mul_comm _ _
    refine ⟨R / N, by omega, by omega, by omega⟩

theorem mem_classes (N W b r c : Nat) :
    (b, r, c) ∈ classes N W ↔ b < W ∧ r < N ∧ c < N ∧ (b = 0 → r ≤ c) := by
  simp only [classes, List.mem_flatMap, List.mem_map, List.mem_filter, List.mem_range,
    Prod.mk.injEq]
  constructor
  · rintro ⟨b', hb', r', hr', c', ⟨hc', hf⟩, rfl, rfl, rfl⟩
    refine ⟨hb', hr', hc', fun h0 => ?_⟩
    simpa [h0] using hf
  · rintro ⟨hb, hr, hc, h0⟩
    refine ⟨b, hb, r, hr, c, ⟨hc, ?_⟩, rfl, rfl, rfl⟩
    by_cases hb0 : b = 0
    · simpa [hb0] using h0 hb0
    · simp [hb0]

theorem class_partition (N W R C : Nat) (hN : 0 < N) (hRC : R ≤ C) (hC : C < N * W) :
    ∃ k, k ∈ classes N W ∧ (R, C) ∈ positions k.1 k.2.1 k.2.2 N W ∧
      ∀ k', k' ∈ classes N W → (R, C) ∈ positions k'.1 k'.2.1 k'.2.2 N W → k' = k := by
  have hdiv : R / N ≤ C / N := Nat.div_le_div_right hRC
  have hq : C / N < W := Nat.div_lt_of_lt_mul hC
  have hrN : R % N < N := Nat.mod_lt _ hN
  have hcN : C % N < N := Nat.mod_lt _ hN
  have eR := Nat.div_add_mod R N
  have eC := Nat.div_add_mod C N
  generalize hqR : R / N = qR at *
  generalize hqC : C / N = qC at *
  generalize hsR : R % N = sR at *
  generalize hsC : C % N = sC at *
  refine ⟨(qC - qR, sR, sC), ?_, ?_, ?_⟩
  · rw [mem_classes]
    refine ⟨by omega, hrN, hcN, fun h0 => ?_⟩
    have : qC = qR := by omega
    subst this
    omega
  · show (R, C) ∈ positions (qC - qR) sR sC N W
    rw [mem_positions_iff _ _ _ N W R C hN hrN hcN hC, hqR, hqC, hsR, hsC]
    exact ⟨rfl, rfl, by omega⟩
  · rintro ⟨b', r', c'⟩ hk hp
    rw [mem_classes] at hk
    change (R, C) ∈ positions b' r' c' N W at hp
    rw [mem_positions_iff _ _ _ N W R C hN hk.2.1 hk.2.2.1 hC, hqR, hqC, hsR, hsC] at hp
    obtain ⟨h1, h2, h3⟩ := hp
    have : b' = qC - qR := by omega
    rw [this, h1, h2]

theorem classes_nodup (N W : Nat) : (classes N W).Nodup := by
  unfold classes
  rw [List.nodup_flatMap]
  refine ⟨fun b _ => ?_, ?_⟩
  · rw [List.nodup_flatMap]
    refine ⟨fun r _ => ?_, ?_⟩
    · refine (List.nodup_range.filter _).map ?_
      intro a a' h
      simpa using h
    · refine List.nodup_range.imp ?_
      intro r r' hrr p h1 h2
      simp only [List.mem_map, List.mem_filter, List.mem_range] at h1 h2
      obtain ⟨_, _, rfl⟩ := h1
      obtain ⟨_, _, h⟩ := h2
      simp only [Prod.mk.injEq] at h
      omega
  · refine List.nodup_range.imp ?_
    intro b b' hbb p h1 h2
    simp only [List.mem_flatMap, List.mem_map, List.mem_filter, List.mem_range] at h1 h2
    obtain ⟨_, _, _, _, rfl⟩ := h1
    obtain ⟨_, _, _, _, h⟩ := h2
    simp only [Prod.mk.injEq] at h
    omega

theorem positions_nodup (b r c N W : Nat) (hN : 0 < N) : (positions b r c N W).Nodup := by
  simp only [positions, blockStarts, List.map_map]
  refine List.nodup_range.map ?_
  intro i j h
  simp only [Function.comp, Prod.mk.injEq, Nat.zero_add] at h
  have : i * N = j * N := by omega
  exact Nat.eq_of_mul_eq_mul_right hN this

theorem zipWith_map_fst_snd {β γ δ : Type} (f : β → γ → δ) (l : List (β × γ)) :
    List.zipWith f (l.map (·.1)) (l.map (·.2)) = l.map (fun p => f p.1 p.2) := by
  induction l with
  | nil => rfl
  | cons a t ih => simp [ih]

theorem locCompressed_eq_map (b r c N W : Nat) :
    locCompressed b r c N W
      = List.zipWith (fun R C => compressedIndex R C (N * W))
          (locSlices b r c N W).1 (locSlices b r c N W).2 := by
  unfold locCompressed locSlices
  exact (zipWith_map_fst_snd (fun R C => compressedIndex R C (N * W))
    (positions b r c N W)).symm

theorem locSlices_eq_unzip (b r c N W : Nat) :
    locSlices b r c N W = (positions b r c N W).unzip := by
  rw [List.unzip_eq_map]
  rfl

theorem compressedIndex?_isSome_iff (r c n : Nat) :
    (compressedIndex? r c n).isSome ↔ r ≤ c := by
  unfold compressedIndex?
  by_cases h : c < r
  · simp [h]
  · simp [h]; omega

theorem blockStarts?_isSome_iff (b N W : Nat) :
    (blockStarts? b N W).isSome ↔ (b < W ∧ 0 < N) := by
  unfold blockStarts?
  by_cases h1 : b ≥ W
  · simp [h1]
  · by_cases h2 : N = 0
    · simp [h1, h2]
    · by_cases h3 : W = 0
      · omega
      · simp [h1, h2, h3]; omega

theorem allPositions_nodup (N W : Nat) (hN : 0 < N) :
    ((classes N W).flatMap (fun k => positions k.1 k.2.1 k.2.2 N W)).Nodup := by
  rw [List.nodup_flatMap]
  refine ⟨fun k _ => positions_nodup _ _ _ _ _ hN, ?_⟩
  refine (classes_nodup N W).imp_of_mem ?_
  rintro ⟨b, r, c⟩ k' hk hk' hne ⟨R, C⟩ h1 h2
  have hk0 := (mem_classes N W b r c).1 hk
  have hup := positions_upper b r c N W hk0.1 hk0.2.1 hk0.2.2.1 hk0.2.2.2 (R, C) h1
  obtain ⟨k0, _, _, huniq⟩ := class_partition N W R C hN hup.1 hup.2
  exact hne ((huniq _ hk h1).trans (huniq _ hk' h2).symm)

theorem allPositions_perm (N W : Nat) (hN : 0 < N) :
    ((classes N W).flatMap (fun k => positions k.1 k.2.1 k.2.2 N W)).Perm (triuIdx (N * W)) := by
  rw [List.perm_ext_iff_of_nodup (allPositions_nodup N W hN) (triuIdx_nodup _)]
  rintro ⟨R, C⟩
  rw [mem_triuIdx, List.mem_flatMap]
  constructor
  · rintro ⟨⟨b, r, c⟩, hk, hp⟩
    rw [mem_classes] at hk
    exact positions_upper b r c N W hk.1 hk.2.1 hk.2.2.1 hk.2.2.2 (R, C) hp
  · rintro ⟨h1, h2⟩
    obtain ⟨k, hk, hp, _⟩ := class_partition N W R C hN h1 h2
    exact ⟨k, hk, hp⟩

theorem class_sizes_sum (N W : Nat) :
    ((classes N W).map (fun k => (positions k.1 k.2.1 k.2.2 N W).length)).sum
      = (N * W) * (N * W + 1) / 2 := by
  rcases Nat.eq_zero_or_pos N with rfl | hN
  · have h0 : classes 0 W = [] := by
      rw [List.eq_nil_iff_forall_not_mem]
      rintro ⟨b, r, c⟩ h
      rw [mem_classes] at h
      omega
    simp [h0]
  · rw [← triuIdx_length (N * W), ← (allPositions_perm N W hN).length_eq, List.length_flatMap]

end FastTicc.Index.Aux

/- Helper lemmas for the whole-run theorems. -/
import FastTicc.Model.Run
import FastTicc.Props.Compose
import FastTicc.Props.C08
import Mathlib.Algebra.Order.Field.Basic

namespace FastTicc.Run
open FastTicc FastTicc.Viterbi FastTicc.MainLoop

set_option linter.unusedSectionVars false

variable {α : Type} [Field α] [LinearOrder α] [IsStrictOrderedRing α]

/-! ### the phases, spelled out -/

/-- the state after the `stats` (and the identity `opt`) phase. -/
def fit (inp : Input α) (s : St α) : St α :=
  { s with means := meanTable inp s.labels, fitted := s.labels }

/-- the state after the `relabel` phase. -/
def relab (inp : Input α) (orc : Oracles α) (s : St α) : St α :=
  { s with labels := (viterbiFast inp.K (costPoints inp orc s)).1,
           cost := (viterbiFast inp.K (costPoints inp orc s)).2,
           round := s.round + 1 }

theorem stats_eq (inp : Input α) (orc : Oracles α) (s : St α) :
    (phases inp orc).stats s =
      if hasEmpty inp.K s.labels then .error "empty-cluster" else .ok (fit inp s) := rfl

theorem opt_eq (inp : Input α) (orc : Oracles α) (s : St α) :
    (phases inp orc).opt s = .ok s := rfl

theorem relabel_eq (inp : Input α) (orc : Oracles α) (s : St α) :
    (phases inp orc).relabel s = .ok (relab inp orc s) := rfl

theorem repop_eq (inp : Input α) (orc : Oracles α) (s : St α) :
    (phases inp orc).repop s =
      match Repop.repopulate inp.K inp.m (orc.spread s.round) (orc.pick s.round)
          (orc.order s.round) s.labels with
      | some l => .ok { s with labels := l }
      | none => .error "no-donor" := rfl

/-- the three phases after the (possible) repopulation, on a state `s1`. -/
theorem fit_relabel_cases (inp : Input α) (orc : Oracles α) (s1 : St α) :
    ((phases inp orc).stats s1 >>= (phases inp orc).opt >>= (phases inp orc).relabel) =
      if hasEmpty inp.K s1.labels then .error "empty-cluster"
      else .ok (relab inp orc (fit inp s1)) := by
  rw [stats_eq]
  split <;> rfl

/-- the state a round fits: the input itself in round 0, its repopulation afterwards. -/
def fittedInput (inp : Input α) (orc : Oracles α) (i : Nat) (s : St α) : Except String (St α) :=
  if 0 < i then (phases inp orc).repop s else .ok s

/-- what a round of the composed model is: a successful round is `relab (fit s1)` for a state `s1`
that has the round counter of the input state (the input itself, or its repopulation) and no empty
cluster; a failed round failed with "no-donor" (repopulation) or "empty-cluster" (statistics). -/
theorem round_cases (inp : Input α) (orc : Oracles α) (i : Nat) (s : St α) :
    (∃ s1, s1.round = s.round ∧ fittedInput inp orc i s = .ok s1 ∧ hasEmpty inp.K s1.labels = false ∧
        round (phases inp orc) i s = .ok (relab inp orc (fit inp s1))) ∨
      (0 < i ∧ (phases inp orc).repop s = .error "no-donor" ∧
        round (phases inp orc) i s = .error "no-donor") ∨
      (∃ s1, fittedInput inp orc i s = .ok s1 ∧ hasEmpty inp.K s1.labels = true ∧
        round (phases inp orc) i s = .error "empty-cluster") := by
  rcases Nat.eq_zero_or_pos i with hi | hi
  · subst hi
    rw [round_zero, fit_relabel_cases]
    cases he : hasEmpty inp.K s.labels with
    | false => left; exact ⟨s, rfl, rfl, he, by simp⟩
    | true => right; right; exact ⟨s, rfl, he, by simp⟩
  · rw [round_pos _ i hi]
    have hfi : fittedInput inp orc i s = (phases inp orc).repop s := by simp [fittedInput, hi]
    rw [hfi, repop_eq]
    cases Repop.repopulate inp.K inp.m (orc.spread s.round) (orc.pick s.round)
        (orc.order s.round) s.labels with
    | none => right; left; exact ⟨hi, rfl, rfl⟩
    | some l =>
      have hb : ((Except.ok { s with labels := l } : Except String (St α)) >>= (phases inp orc).stats
          >>= (phases inp orc).opt >>= (phases inp orc).relabel) =
          ((phases inp orc).stats { s with labels := l } >>= (phases inp orc).opt
            >>= (phases inp orc).relabel) := rfl
      simp only [hb, fit_relabel_cases]
      cases he : hasEmpty inp.K l with
      | false => left; exact ⟨{ s with labels := l }, rfl, rfl, he, by simp [he]⟩
      | true => right; right; exact ⟨{ s with labels := l }, rfl, he, by simp [he]⟩

theorem round_ok_shape (inp : Input α) (orc : Oracles α) (i : Nat) (s s' : St α)
    (h : round (phases inp orc) i s = .ok s') :
    ∃ s1, s1.round = s.round ∧ s' = relab inp orc (fit inp s1) := by
  rcases round_cases inp orc i s with ⟨s1, h1, _, _, h2⟩ | ⟨_, _, h2⟩ | ⟨_, _, _, h2⟩
  · rw [h2] at h
    exact ⟨s1, h1, (Except.ok.inj h).symm⟩
  · rw [h2] at h
    cases h
  · rw [h2] at h
    cases h

theorem round_error_kinds (inp : Input α) (orc : Oracles α) (i : Nat) (s : St α) (e : String)
    (h : round (phases inp orc) i s = .error e) : e = "no-donor" ∨ e = "empty-cluster" := by
  rcases round_cases inp orc i s with ⟨s1, _, _, _, h2⟩ | ⟨_, _, h2⟩ | ⟨_, _, _, h2⟩
  · rw [h2] at h
    cases h
  · rw [h2] at h
    exact Or.inl (Except.error.inj h).symm
  · rw [h2] at h
    exact Or.inr (Except.error.inj h).symm

/-! ### the cost table -/

theorem costPoints_length (inp : Input α) (orc : Oracles α) (s : St α) :
    (costPoints inp orc s).length = inp.T := by
  simp [costPoints]

theorem costPoints_ne_nil (inp : Input α) (orc : Oracles α) (s : St α) (hT : 0 < inp.T) :
    costPoints inp orc s ≠ [] := by
  intro h
  have := costPoints_length inp orc s
  rw [h] at this
  simp at this
  omega

theorem costPoints_betaNonneg (inp : Input α) (orc : Oracles α) (s : St α)
    (hb : ∀ b ∈ inp.betas, 0 ≤ b) : BetaNonneg (costPoints inp orc s) := by
  intro p hp
  simp only [costPoints, List.mem_map] at hp
  obtain ⟨i, _, rfl⟩ := hp
  show 0 ≤ inp.betas.getD i 0
  rw [List.getD_eq_getElem?_getD]
  cases hi : inp.betas[i]? with
  | none => simp
  | some b => exact hb b (List.mem_of_getElem? hi)

/-- a relabelled state carries a valid labelling. -/
theorem relab_labels_valid (inp : Input α) (orc : Oracles α) (s : St α) (hK : 0 < inp.K)
    (hT : 0 < inp.T) :
    (relab inp orc s).labels.length = inp.T ∧ ∀ l ∈ (relab inp orc s).labels, l < inp.K := by
  show (viterbiFast inp.K (costPoints inp orc s)).1.length = inp.T ∧
    ∀ l ∈ (viterbiFast inp.K (costPoints inp orc s)).1, l < inp.K
  rw [viterbiFast_eq inp.K hK]
  refine ⟨?_, viterbi_labels_in_range inp.K hK _⟩
  rw [viterbi_length inp.K _ (costPoints_ne_nil inp orc s hT), costPoints_length]

/-! ### repopulation keeps a labelling valid (only needs the recipients to be `< K`) -/

theorem setLabels_length (labels pts : List Nat) (k : Nat) :
    (Repop.setLabels labels pts k).length = labels.length := by
  unfold Repop.setLabels
  induction pts generalizing labels with
  | nil => rfl
  | cons p ps ih => simp only [List.foldl_cons]; rw [ih, List.length_set]

theorem setLabels_mem (labels pts : List Nat) (k : Nat) :
    ∀ l ∈ Repop.setLabels labels pts k, l ∈ labels ∨ l = k := by
  unfold Repop.setLabels
  induction pts generalizing labels with
  | nil => intro l hl; exact Or.inl hl
  | cons p ps ih =>
    intro l hl
    simp only [List.foldl_cons] at hl
    rcases ih _ l hl with h | h
    · exact List.mem_or_eq_of_mem_set h
    · exact Or.inr h

theorem refill_valid (K m : Nat) (pick : Nat → Nat → List Nat) :
    ∀ (order rem labels : List Nat) (st : Nat) (labels' : List Nat),
      (∀ e ∈ order, e < K) → (∀ l ∈ labels, l < K) →
      Repop.refill m pick order rem labels st = some labels' →
      labels'.length = labels.length ∧ ∀ l ∈ labels', l < K := by
  intro order
  induction order with
  | nil =>
    intro rem labels st labels' _ hl h
    simp only [Repop.refill, Option.some.injEq] at h
    subst h
    exact ⟨rfl, hl⟩
  | cons e es ih =>
    intro rem labels st labels' ho hl h
    simp only [Repop.refill] at h
    cases hf : Repop.findDonor (Repop.size labels) m rem with
    | none => rw [hf] at h; cases h
    | some dr =>
      obtain ⟨d, rem'⟩ := dr
      rw [hf] at h
      simp only [] at h
      have hl' : ∀ l ∈ Repop.movePoints labels d e (pick st (Repop.size labels d)), l < K := by
        intro l hmem
        rcases setLabels_mem _ _ _ l hmem with h1 | h1
        · exact hl l h1
        · rw [h1]; exact ho e List.mem_cons_self
      obtain ⟨a, b⟩ := ih rem' _ (st + 1) labels' (fun x hx => ho x (List.mem_cons_of_mem _ hx)) hl' h
      refine ⟨?_, b⟩
      rw [a]
      exact setLabels_length _ _ _

theorem repopulate_valid {β : Type} [LT β] [DecidableLT β] (K m : Nat) (spread : Nat → β)
    (pick : Nat → Nat → List Nat) (order labels labels' : List Nat)
    (ho : ∀ e ∈ order, e < K) (hl : ∀ l ∈ labels, l < K)
    (h : Repop.repopulate K m spread pick order labels = some labels') :
    labels'.length = labels.length ∧ ∀ l ∈ labels', l < K := by
  unfold Repop.repopulate at h
  split at h
  · cases h
    exact ⟨rfl, hl⟩
  · exact refill_valid K m pick order _ labels 0 labels' ho hl h

/-! ### the run -/

theorem run_spec' (inp : Input α) (orc : Oracles α) {limit : Nat} {init : List Nat}
    {r : MainLoop.Outcome (St α)} (h : run inp orc limit init = .ok r) :
    MainLoop.Spec (phases inp orc) (fun s => s.labels) limit 0
      (⟨init, 0, 0, [], []⟩ : St α) [] r :=
  MainLoop.run_spec (phases inp orc) (fun s => s.labels) h

/-- every recorded state is `relab (fit s1)` where `s1` has the round counter of the state the
round started from. -/
theorem history_entry (inp : Input α) (orc : Oracles α) {limit : Nat} {init : List Nat}
    {r : MainLoop.Outcome (St α)} (h : run inp orc limit init = .ok r) (j : Nat)
    (hj : j < r.rounds) :
    ∃ sPrev s1 : St α,
      (if j = 0 then some (⟨init, 0, 0, [], []⟩ : St α) else r.history[j - 1]?) = some sPrev ∧
      s1.round = sPrev.round ∧ r.history[j]? = some (relab inp orc (fit inp s1)) := by
  obtain ⟨sPrev, sj, e1, e2, e3⟩ := (run_spec' inp orc h).chain j (Nat.zero_le _) hj
  obtain ⟨s1, h1, h2⟩ := round_ok_shape inp orc j sPrev sj e3
  exact ⟨sPrev, s1, e1, h1, by rw [e2, h2]⟩

theorem history_round (inp : Input α) (orc : Oracles α) {limit : Nat} {init : List Nat}
    {r : MainLoop.Outcome (St α)} (h : run inp orc limit init = .ok r) :
    ∀ j, j < r.rounds → ∃ s, r.history[j]? = some s ∧ s.round = j + 1 := by
  intro j
  induction j with
  | zero =>
    intro hj
    obtain ⟨sPrev, s1, e1, h1, e2⟩ := history_entry inp orc h 0 hj
    simp only [if_true, Option.some.injEq] at e1
    refine ⟨_, e2, ?_⟩
    show s1.round + 1 = 0 + 1
    rw [h1, ← e1]
  | succ j ih =>
    intro hj
    obtain ⟨sPrev, s1, e1, h1, e2⟩ := history_entry inp orc h (j + 1) hj
    obtain ⟨s, hs, hr⟩ := ih (by omega)
    simp only [Nat.add_one_ne_zero, if_false, Nat.add_sub_cancel] at e1
    rw [hs] at e1
    cases e1
    refine ⟨_, e2, ?_⟩
    show s1.round + 1 = j + 1 + 1
    rw [h1, hr]

end FastTicc.Run

/- Helper lemmas for C17b. -/
import FastTicc.Props.C17
import FastTicc.Props.C12
import Mathlib.Data.List.Nodup
import Mathlib.Algebra.BigOperators.Group.Finset.Basic
import Mathlib.Algebra.BigOperators.Ring.Finset
import Mathlib.Tactic.FieldSimp

namespace FastTicc.Numeric

/-- summing cluster by cluster is summing over the concatenated member lists. -/
theorem sum_range_flatMap {α : Type} [AddCommMonoid α] (K : ℕ) (members : ℕ → List ℕ)
    (g : ℕ → α) :
    ∑ k ∈ Finset.range K, ((members k).map g).sum
      = (((List.range K).flatMap members).map g).sum := by
  induction K with
  | zero => simp
  | succ K ih =>
    rw [Finset.sum_range_succ, ih, List.range_succ, List.flatMap_append]
    simp

/-- the cluster sizes add up to the length of the concatenated member lists. -/
theorem sum_range_length_flatMap (K : ℕ) (members : ℕ → List ℕ) :
    ∑ k ∈ Finset.range K, (members k).length = ((List.range K).flatMap members).length := by
  induction K with
  | zero => simp
  | succ K ih =>
    rw [Finset.sum_range_succ, ih, List.range_succ, List.flatMap_append]
    simp

/-- `List.sum` over `List.range` is the `Finset.range` sum. -/
theorem sum_map_range {α : Type} [AddCommMonoid α] (T : ℕ) (f : ℕ → α) :
    ((List.range T).map f).sum = ∑ i ∈ Finset.range T, f i := by
  rw [← sumOver_eq_sum, ← sumTo_eq_sum]
  rfl

/-- sizes of a partition add up to `T`. -/
theorem partition_total {α : Type} [Field α] (T K : ℕ) (members : ℕ → List ℕ)
    (hpart : ((List.range K).flatMap members).Perm (List.range T)) :
    sumTo K (fun k => (((members k).length : ℕ) : α)) = (T : α) := by
  rw [sumTo_eq_sum, ← Nat.cast_sum, sum_range_length_flatMap, hpart.length_eq, List.length_range]

/-- the size-weighted sum of the member means is the sum over all points. -/
theorem partition_centroid {α : Type} [Field α] [CharZero α] (T K : ℕ) (members : ℕ → List ℕ)
    (data : ℕ → ℕ → α) (hT : 0 < T)
    (hpart : ((List.range K).flatMap members).Perm (List.range T)) (j : ℕ) :
    sumTo K (fun k => ((members k).length : α) * clusterMean data (members k) j)
      = (T : α) * centroid T data j := by
  have hT' : (T : α) ≠ 0 := Nat.cast_ne_zero.mpr (Nat.pos_iff_ne_zero.mp hT)
  have hk : ∀ k, ((members k).length : α) * clusterMean data (members k) j
      = ((members k).map (fun i => data i j)).sum := by
    intro k
    unfold clusterMean
    rw [sumOver_eq_sum]
    by_cases h0 : members k = []
    · simp [h0]
    · have : ((members k).length : α) ≠ 0 :=
        Nat.cast_ne_zero.mpr (fun h => h0 (List.length_eq_zero_iff.mp h))
      rw [mul_div_cancel₀ _ this]
  unfold centroid
  rw [mul_div_cancel₀ _ hT', sumTo_eq_sum, sumTo_eq_sum]
  simp only [hk]
  rw [sum_range_flatMap, (hpart.map _).sum_eq, sum_map_range]

/-- the labelling-derived member lists, concatenated over the `K` clusters, are a permutation
of the point indices. -/
theorem members_flatMap_perm (labels : List ℕ) (K : ℕ) (hK : ∀ l ∈ labels, l < K) :
    ((List.range K).flatMap (fun k => Repop.members labels k)).Perm (List.range labels.length) := by
  refine (List.perm_ext_iff_of_nodup ?_ List.nodup_range).mpr ?_
  · rw [List.nodup_flatMap]
    refine ⟨fun k _ => members_nodup labels k, ?_⟩
    refine List.Nodup.pairwise_of_forall_ne List.nodup_range ?_
    intro a _ b _ hab i hia hib
    rw [mem_members] at hia hib
    rw [hia] at hib
    exact hab (Option.some.inj hib)
  · intro i
    rw [List.mem_flatMap, List.mem_range]
    constructor
    · rintro ⟨k, _, hik⟩
      rw [mem_members] at hik
      exact (List.getElem?_eq_some_iff.mp hik).1
    · intro hi
      refine ⟨labels[i], ?_, ?_⟩
      · exact List.mem_range.mpr (hK _ (List.getElem_mem hi))
      · rw [mem_members]
        exact List.getElem?_eq_getElem hi

end FastTicc.Numeric

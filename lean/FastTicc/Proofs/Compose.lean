/- Helper lemmas for the composition theorems. -/
import FastTicc.Props.C01
import FastTicc.Props.C09
import FastTicc.Props.C20

namespace FastTicc.MainLoop

/-! ### the last round of a successful run ends in `relabel` -/

section LastRound
variable {σ ε : Type}

theorem bind_ok {α γ : Type} {m : Except ε α} {f : α → Except ε γ} {c : γ}
    (h : (m >>= f) = .ok c) : ∃ a, m = .ok a ∧ f a = .ok c := by
  cases m with
  | error e => cases h
  | ok a => exact ⟨a, rfl, h⟩

/-- a successful round ends with a successful `relabel` of some fitted state. -/
theorem round_ok_relabel (P : Phases σ ε) (i : Nat) (s s' : σ) (h : round P i s = .ok s') :
    ∃ sFit, P.relabel sFit = .ok s' := by
  rcases Nat.eq_zero_or_pos i with hi | hi
  · subst hi
    rw [round_zero] at h
    obtain ⟨a, _, ha⟩ := bind_ok h
    exact ⟨a, ha⟩
  · rw [round_pos P i hi] at h
    obtain ⟨a, _, ha⟩ := bind_ok h
    exact ⟨a, ha⟩

/-- with `limit ≥ 1` the returned state is the `relabel` output of the last round. -/
theorem run_final_relabel {L : Type} [DecidableEq L] (P : Phases σ ε) (labels : σ → L)
    (limit : Nat) (hl : 1 ≤ limit) (s0 : σ) (r : Outcome σ)
    (h : run P labels limit s0 = .ok r) : ∃ sFit, P.relabel sFit = .ok r.final := by
  have S := run_spec P labels h
  have h1 := S.lo' hl
  obtain ⟨sPrev, sj, _, e2, e3⟩ := S.chain (r.rounds - 1) (Nat.zero_le _) (by omega)
  rw [S.last (by omega)] at e2
  cases e2
  exact round_ok_relabel P _ _ _ e3

end LastRound

/-! ### the optimise phase as K gathered tasks -/

section Tasks
variable {σ ε β : Type}

theorem map_error_iff {γ : Type} (f : β → γ) (x : Except ε β) (e : ε) :
    x.map f = .error e ↔ x = .error e := by
  cases x <;> simp [Except.map]

theorem map_ok_iff {γ : Type} (f : β → γ) (x : Except ε β) (c : γ) :
    x.map f = .ok c ↔ ∃ b, x = .ok b ∧ c = f b := by
  cases x with
  | error e => simp [Except.map]
  | ok b =>
    simp only [Except.map, Except.ok.injEq]
    constructor
    · intro h; exact ⟨b, rfl, h.symm⟩
    · rintro ⟨b', hb, hc⟩; rw [hb, hc]

theorem getElem?_range_map_eq {γ : Type} (K : Nat) (g : Nat → γ) (k : Nat) (c : γ) :
    ((List.range K).map g)[k]? = some c ↔ k < K ∧ g k = c := by
  rw [List.getElem?_map]
  by_cases hk : k < K
  · simp [hk]
  · rw [List.getElem?_eq_none (by simp; omega)]
    simp [hk]

end Tasks

/-! ### the ADMM outer loop -/

section Admm
variable {ν : Type} (step : Admm ν → Admm ν) (stop : Admm ν → ν → Bool)
  (rescale : Admm ν → ν → Admm ν)

theorem admmLoop_succ (fuel it : Nat) (s : Admm ν) :
    admmLoop step stop rescale (fuel + 1) it s =
      if 0 < it ∧ stop (step s) s.z then ((step s).x, it + 1)
      else admmLoop step stop rescale fuel (it + 1)
        (if 0 < it then rescale (step s) s.z else step s) := rfl

/-- sweep count bounds, first-sweep rule, and the early-stop rule. -/
theorem admmLoop_spec : ∀ (fuel it : Nat) (s : Admm ν),
    it ≤ (admmLoop step stop rescale fuel it s).2 ∧
    (admmLoop step stop rescale fuel it s).2 ≤ it + fuel ∧
    (1 ≤ fuel → it + 1 ≤ (admmLoop step stop rescale fuel it s).2) ∧
    (it = 0 → 2 ≤ fuel → 2 ≤ (admmLoop step stop rescale fuel it s).2) ∧
    ((admmLoop step stop rescale fuel it s).2 < it + fuel →
      ∃ sPrev : Admm ν, (admmLoop step stop rescale fuel it s).1 = (step sPrev).x ∧
        stop (step sPrev) sPrev.z = true) := by
  intro fuel
  induction fuel with
  | zero =>
    intro it s
    simp [admmLoop]
  | succ fuel ih =>
    intro it s
    rw [admmLoop_succ]
    by_cases hc : 0 < it ∧ stop (step s) s.z = true
    · rw [if_pos hc]
      refine ⟨by simp, by simp, fun _ => by simp, fun h0 => by omega, fun _ => ⟨s, rfl, hc.2⟩⟩
    · rw [if_neg hc]
      obtain ⟨a1, a2, a3, _, a5⟩ :=
        ih (it + 1) (if 0 < it then rescale (step s) s.z else step s)
      refine ⟨by omega, by omega, fun _ => a1, ?_, fun h => a5 (by omega)⟩
      intro h0 hf
      have := a3 (by omega)
      omega

/-- if the rho update leaves `x` alone, the returned `x` is the `x` of some sweep. -/
theorem admmLoop_returns_x (hres : ∀ s z, (rescale s z).x = s.x) :
    ∀ (fuel it : Nat) (s : Admm ν), 1 ≤ fuel →
      ∃ sPrev : Admm ν, (admmLoop step stop rescale fuel it s).1 = (step sPrev).x := by
  intro fuel
  induction fuel with
  | zero => intro it s h; omega
  | succ fuel ih =>
    intro it s _
    rw [admmLoop_succ]
    by_cases hc : 0 < it ∧ stop (step s) s.z = true
    · rw [if_pos hc]
      exact ⟨s, rfl⟩
    · rw [if_neg hc]
      cases fuel with
      | zero =>
        refine ⟨s, ?_⟩
        simp only [admmLoop]
        split
        · exact hres _ _
        · rfl
      | succ fuel => exact ih _ _ (by omega)

end Admm

end FastTicc.MainLoop

/- Helper lemmas for properties C05, C12, C17. -/
import FastTicc.Model.Numeric
import FastTicc.Model.Repop
import Mathlib.Algebra.Order.Field.Basic
import Mathlib.Algebra.BigOperators.Group.Finset.Basic
import Mathlib.Algebra.BigOperators.Ring.Finset
import Mathlib.Tactic.Ring
import Mathlib.Tactic.Linarith
import Mathlib.Tactic.FieldSimp

namespace FastTicc.Numeric

/-! ### bridges from the executable left folds to `Finset.sum` / `List.sum` -/

theorem sumTo_eq_sum {α : Type} [AddCommMonoid α] (n : ℕ) (f : ℕ → α) :
    sumTo n f = ∑ i ∈ Finset.range n, f i := by
  induction n with
  | zero => simp [sumTo]
  | succ n ih =>
    rw [Finset.sum_range_succ, ← ih]
    simp [sumTo, List.range_succ, List.foldl_append]

theorem foldl_add_eq {α ι : Type} [AddCommMonoid α] (l : List ι) (f : ι → α) (a : α) :
    l.foldl (fun acc i => acc + f i) a = a + (l.map f).sum := by
  induction l generalizing a with
  | nil => simp
  | cons x xs ih => simp [ih, add_assoc]

theorem sumOver_eq_sum {α ι : Type} [AddCommMonoid α] (l : List ι) (f : ι → α) :
    sumOver l f = (l.map f).sum := by
  simp [sumOver, foldl_add_eq]

theorem sumOver_perm {α ι : Type} [AddCommMonoid α] {l₁ l₂ : List ι} (h : l₁.Perm l₂)
    (f : ι → α) : sumOver l₁ f = sumOver l₂ f := by
  rw [sumOver_eq_sum, sumOver_eq_sum]
  exact (h.map f).sum_eq

theorem sumOver_congr {α ι : Type} [AddCommMonoid α] (l : List ι) (f g : ι → α)
    (h : ∀ i ∈ l, f i = g i) : sumOver l f = sumOver l g := by
  rw [sumOver_eq_sum, sumOver_eq_sum, List.map_congr_left h]

theorem sumTo_congr {α : Type} [AddCommMonoid α] (n : ℕ) (f g : ℕ → α)
    (h : ∀ i, i < n → f i = g i) : sumTo n f = sumTo n g := by
  rw [sumTo_eq_sum, sumTo_eq_sum]
  exact Finset.sum_congr rfl (fun i hi => h i (Finset.mem_range.mp hi))

/-! ### member lists -/

theorem mem_members (labels : List ℕ) (k i : ℕ) :
    i ∈ Repop.members labels k ↔ labels[i]? = some k := by
  unfold Repop.members
  rw [List.mem_filter, List.mem_range, beq_iff_eq]
  constructor
  · exact fun h => h.2
  · intro h
    refine ⟨?_, h⟩
    obtain ⟨hlt, _⟩ := List.getElem?_eq_some_iff.mp h
    exact hlt

theorem members_nodup (labels : List ℕ) (k : ℕ) : (Repop.members labels k).Nodup :=
  List.Nodup.filter _ List.nodup_range

/-! ### one column of the between-group decomposition -/

theorem column_decomposition {α : Type} [Field α] (K : ℕ) (n μ : ℕ → α) (T c g : α)
    (hT : ∑ k ∈ Finset.range K, n k = T)
    (hc : ∑ k ∈ Finset.range K, n k * μ k = T * c) :
    ∑ k ∈ Finset.range K, n k * ((μ k - g) * (μ k - g)) =
      ∑ k ∈ Finset.range K, n k * ((μ k - c) * (μ k - c)) + T * ((c - g) * (c - g)) := by
  have e : ∀ k ∈ Finset.range K, n k * ((μ k - g) * (μ k - g)) =
      n k * ((μ k - c) * (μ k - c)) + (2 * (c - g)) * (n k * μ k)
        + ((c - g) * (c - g) - 2 * (c - g) * c) * n k := by
    intro k _; ring
  rw [Finset.sum_congr rfl e, Finset.sum_add_distrib, Finset.sum_add_distrib,
    ← Finset.mul_sum, ← Finset.mul_sum, hT, hc]
  ring

end FastTicc.Numeric

/- Helper lemmas for properties C02, C03, C18. -/
import FastTicc.Model.Numeric
import FastTicc.Props.C11
import Mathlib.Algebra.Order.Field.Basic
import Mathlib.Algebra.Order.Ring.Abs
import Mathlib.Algebra.BigOperators.Group.List.Basic
import Mathlib.Analysis.Real.Sqrt
import Mathlib.Tactic.Ring
import Mathlib.Tactic.Linarith
import Mathlib.Tactic.FieldSimp
import Mathlib.Tactic.NormNum
import Mathlib.Tactic.LinearCombination

namespace FastTicc.Numeric
open FastTicc.Index

namespace Aux

/-! ### folds as sums -/

section sums
variable {α : Type} [Field α]

theorem foldl_add_eq {ι : Type} (l : List ι) (f : ι → α) (a : α) :
    l.foldl (fun acc i => acc + f i) a = a + (l.map f).sum := by
  induction l generalizing a with
  | nil => simp
  | cons x xs ih => simp [ih, add_assoc]

theorem sumOver_eq_sum {ι : Type} (l : List ι) (f : ι → α) :
    sumOver l f = (l.map f).sum := by
  unfold sumOver
  rw [foldl_add_eq, zero_add]

theorem sumOver_const {ι : Type} (l : List ι) (v : α) :
    sumOver l (fun _ => v) = v * (l.length : α) := by
  rw [sumOver_eq_sum]
  induction l with
  | nil => simp
  | cons x xs ih =>
    simp only [List.map_cons, List.sum_cons, List.length_cons, ih]
    push_cast
    ring

theorem sum_sq_expand (ss : List α) (z : α) :
    (ss.map (fun s => (z - s) * (z - s))).sum
      = (ss.length : α) * z * z - 2 * z * ss.sum + (ss.map (fun s => s * s)).sum := by
  induction ss with
  | nil => simp
  | cons x xs ih =>
    simp only [List.map_cons, List.sum_cons, List.length_cons, ih]
    push_cast
    ring

theorem sum_shift (us : List α) (z : α) :
    (us.map (fun u => z + u)).sum = (us.length : α) * z + us.sum := by
  induction us with
  | nil => simp
  | cons x xs ih =>
    simp only [List.map_cons, List.sum_cons, List.length_cons, ih]
    push_cast
    ring

theorem uUpdate_getElem (u x z : List α) (i : Nat) (hu : i < u.length) (hx : i < x.length)
    (hz : i < z.length) (h : i < (uUpdate u x z).length) :
    (uUpdate u x z)[i] = (u[i] + x[i]) - z[i] := by
  simp [uUpdate, List.getD_eq_getElem?_getD, hu, hx, hz]

theorem uUpdate_length (u x z : List α) : (uUpdate u x z).length = u.length := by
  simp [uUpdate]

end sums

/-! ### soft threshold -/

section soft
variable {α : Type} [Field α] [LinearOrder α] [IsStrictOrderedRing α]

theorem softThreshold_closed_form (s lam rr : α) (_hl : 0 ≤ lam) (hr : 0 < rr) :
    softThreshold s lam rr =
      if lam < s then (s - lam) / rr else if s < -lam then (s + lam) / rr else 0 := by
  unfold softThreshold pyMax pyMin
  by_cases h1 : lam < s
  · have hpos : 0 < (s - lam) / rr := div_pos (sub_pos.2 h1) hr
    simp only [h1, if_true]
    rw [if_neg (not_lt.2 hpos.le)]
  · simp only [h1, if_false]
    by_cases h2 : s < -lam
    · have hneg : (s + lam) / rr < 0 := div_neg_of_neg_of_pos (by linarith) hr
      simp only [h2, if_true]
      rw [if_neg (not_lt.2 hneg.le)]
    · simp only [h2, if_false]

/-- positive branch: `T = a z* + Λ`, `z* ≥ 0`. -/
theorem prox_pos (lam a zs z : α) (hl : 0 ≤ lam) (ha : 0 < a) (hzs : 0 ≤ zs) :
    lam * |zs| + (a / 2 * zs * zs - zs * (a * zs + lam))
      ≤ lam * |z| + (a / 2 * z * z - z * (a * zs + lam)) := by
  rw [abs_of_nonneg hzs]
  have h1 := mul_nonneg hl (sub_nonneg.2 (le_abs_self z))
  have h2 := mul_nonneg ha.le (mul_self_nonneg (z - zs))
  nlinarith [h1, h2]

/-- negative branch: `T = a z* − Λ`, `z* ≤ 0`. -/
theorem prox_neg (lam a zs z : α) (hl : 0 ≤ lam) (ha : 0 < a) (hzs : zs ≤ 0) :
    lam * |zs| + (a / 2 * zs * zs - zs * (a * zs - lam))
      ≤ lam * |z| + (a / 2 * z * z - z * (a * zs - lam)) := by
  rw [abs_of_nonpos hzs]
  have h1 := mul_nonneg hl (by linarith [neg_abs_le z] : (0 : α) ≤ |z| + z)
  have h2 := mul_nonneg ha.le (mul_self_nonneg (z - zs))
  nlinarith [h1, h2]

/-- dead zone: `|T| ≤ Λ`, `z* = 0`. -/
theorem prox_zero (lam a T z : α) (ha : 0 < a) (h1 : ¬ lam < T) (h2 : ¬ T < -lam) :
    lam * |(0 : α)| + (a / 2 * 0 * 0 - 0 * T) ≤ lam * |z| + (a / 2 * z * z - z * T) := by
  have h1' : T ≤ lam := not_lt.1 h1
  have h2' : -lam ≤ T := not_lt.1 h2
  have hz2 := mul_nonneg ha.le (mul_self_nonneg z)
  have key : z * T ≤ lam * |z| := by
    rcases le_total 0 z with hz | hz
    · rw [abs_of_nonneg hz]; nlinarith
    · rw [abs_of_nonpos hz]; nlinarith
  simp only [abs_zero, mul_zero, zero_mul, sub_zero, add_zero]
  nlinarith [hz2, key]

theorem prox_min (lam a T : α) (hl : 0 ≤ lam) (ha : 0 < a) (z : α) :
    lam * |(if lam < T then (T - lam) / a else if T < -lam then (T + lam) / a else 0)|
        + (a / 2 * (if lam < T then (T - lam) / a else if T < -lam then (T + lam) / a else 0)
            * (if lam < T then (T - lam) / a else if T < -lam then (T + lam) / a else 0)
          - (if lam < T then (T - lam) / a else if T < -lam then (T + lam) / a else 0) * T)
      ≤ lam * |z| + (a / 2 * z * z - z * T) := by
  by_cases h1 : lam < T
  · simp only [h1, if_true]
    have hzs : 0 ≤ (T - lam) / a := (div_pos (sub_pos.2 h1) ha).le
    have hT : T = a * ((T - lam) / a) + lam := by field_simp; ring
    have := prox_pos lam a ((T - lam) / a) z hl ha hzs
    rw [← hT] at this
    exact this
  · simp only [h1, if_false]
    by_cases h2 : T < -lam
    · simp only [h2, if_true]
      have hzs : (T + lam) / a ≤ 0 := (div_neg_of_neg_of_pos (by linarith) ha).le
      have hT : T = a * ((T + lam) / a) - lam := by field_simp; ring
      have := prox_neg lam a ((T + lam) / a) z hl ha hzs
      rw [← hT] at this
      exact this
    · simp only [h2, if_false]
      exact prox_zero lam a T z ha h1 h2

theorem uUpdate_fixed_iff (u x z : List α) (hx : x.length = u.length) (hz : z.length = u.length) :
    uUpdate u x z = u ↔ x = z := by
  constructor
  · intro h
    refine List.ext_getElem (hx.trans hz.symm) (fun i h1 h2 => ?_)
    have hu : i < u.length := hx ▸ h1
    have hlen : i < (uUpdate u x z).length := by rw [uUpdate_length]; exact hu
    have hi : (uUpdate u x z)[i] = u[i] := by simp only [h]
    rw [uUpdate_getElem u x z i hu h1 h2 hlen] at hi
    linarith
  · intro h
    refine List.ext_getElem (uUpdate_length u x z) (fun i h1 h2 => ?_)
    have hxi : i < x.length := hx ▸ h2
    have hzi : i < z.length := hz ▸ h2
    rw [uUpdate_getElem u x z i h2 hxi hzi h1]
    have : x[i] = z[i] := by simp only [h]
    rw [this]
    ring

end soft

/-! ### writes into a list -/

section writes
variable {β : Type}

theorem foldl_set_length (is : List Nat) (v : β) (z : List β) :
    (is.foldl (fun z i => z.set i v) z).length = z.length := by
  induction is generalizing z with
  | nil => rfl
  | cons j js ih => simp [ih]

theorem foldl_set_not_mem (is : List Nat) (v : β) (z : List β) (i : Nat) (hi : i ∉ is) :
    (is.foldl (fun z i => z.set i v) z)[i]? = z[i]? := by
  induction is generalizing z with
  | nil => rfl
  | cons j js ih =>
    simp only [List.mem_cons, not_or] at hi
    simp only [List.foldl_cons]
    rw [ih _ hi.2, List.getElem?_set_ne (Ne.symm hi.1)]

theorem foldl_set_mem (is : List Nat) (v : β) (z : List β) (i : Nat) (hi : i ∈ is)
    (hlt : i < z.length) :
    (is.foldl (fun z i => z.set i v) z)[i]? = some v := by
  induction is generalizing z with
  | nil => cases hi
  | cons j js ih =>
    simp only [List.foldl_cons]
    by_cases hjs : i ∈ js
    · exact ih _ hjs (by simpa using hlt)
    · have hij : i = j := by
        rcases List.mem_cons.1 hi with h | h
        · exact h
        · exact absurd h hjs
      subst hij
      rw [foldl_set_not_mem _ _ _ _ hjs, List.getElem?_set_self hlt]

variable {κ : Type}

theorem foldl_blocks_length (ks : List κ) (idx : κ → List Nat) (val : κ → β) (z : List β) :
    (ks.foldl (fun z k => (idx k).foldl (fun z i => z.set i (val k)) z) z).length = z.length := by
  induction ks generalizing z with
  | nil => rfl
  | cons k ks ih => simp only [List.foldl_cons]; rw [ih, foldl_set_length]

theorem foldl_blocks_not_mem (ks : List κ) (idx : κ → List Nat) (val : κ → β) (z : List β)
    (i : Nat) (hi : ∀ k ∈ ks, i ∉ idx k) :
    (ks.foldl (fun z k => (idx k).foldl (fun z i => z.set i (val k)) z) z)[i]? = z[i]? := by
  induction ks generalizing z with
  | nil => rfl
  | cons k ks ih =>
    simp only [List.foldl_cons]
    rw [ih _ (fun k' hk' => hi k' (List.mem_cons_of_mem _ hk')),
      foldl_set_not_mem _ _ _ _ (hi k List.mem_cons_self)]

/-- block writes with pairwise disjoint index lists: the entry at an index of block `k` ends up
being block `k`'s value. -/
theorem foldl_blocks_mem (ks : List κ) (idx : κ → List Nat) (val : κ → β) (z : List β)
    (k : κ) (hk : k ∈ ks) (i : Nat) (hi : i ∈ idx k) (hlt : i < z.length)
    (hdisj : ∀ k' ∈ ks, k' ≠ k → i ∉ idx k') :
    (ks.foldl (fun z k => (idx k).foldl (fun z i => z.set i (val k)) z) z)[i]? = some (val k) := by
  induction ks generalizing z with
  | nil => cases hk
  | cons k0 ks ih =>
    simp only [List.foldl_cons]
    by_cases hks : k ∈ ks
    · exact ih _ hks (by rw [foldl_set_length]; exact hlt)
        (fun k' hk' => hdisj k' (List.mem_cons_of_mem _ hk'))
    · have hk0 : k = k0 := by
        rcases List.mem_cons.1 hk with h | h
        · exact h
        · exact absurd h hks
      subst hk0
      rw [foldl_blocks_not_mem, foldl_set_mem _ _ _ _ hi hlt]
      intro k' hk'
      exact hdisj k' (List.mem_cons_of_mem _ hk') (fun h => hks (h ▸ hk'))

end writes

/-! ### Toeplitz classes in compressed coordinates -/

theorem locCompressed_mem (b r c N W i : Nat) (hi : i ∈ locCompressed b r c N W) :
    ∃ p ∈ positions b r c N W, i = compressedIndex p.1 p.2 (N * W) := by
  unfold locCompressed at hi
  obtain ⟨p, hp, rfl⟩ := List.mem_map.1 hi
  exact ⟨p, hp, rfl⟩

/-- an index of a class is the rank of one of the class's positions. -/
theorem locCompressed_rank (N W : Nat) (k : Nat × Nat × Nat) (hk : k ∈ classes N W) (i : Nat)
    (hi : i ∈ locCompressed k.1 k.2.1 k.2.2 N W) :
    ∃ p ∈ positions k.1 k.2.1 k.2.2 N W, p.1 ≤ p.2 ∧ p.2 < N * W ∧
      (triuIdx (N * W))[i]? = some p := by
  obtain ⟨b, r, c⟩ := k
  obtain ⟨hb, hr, hc, h0⟩ := (Index.Aux.mem_classes N W b r c).1 hk
  obtain ⟨p, hp, rfl⟩ := locCompressed_mem b r c N W i hi
  obtain ⟨h1, h2⟩ := positions_upper b r c N W hb hr hc h0 p hp
  exact ⟨p, hp, h1, h2, compressedIndex_eq_rank (N * W) p.1 p.2 h1 h2⟩

theorem locCompressed_lt (N W : Nat) (k : Nat × Nat × Nat) (hk : k ∈ classes N W) (i : Nat)
    (hi : i ∈ locCompressed k.1 k.2.1 k.2.2 N W) : i < (N * W) * (N * W + 1) / 2 := by
  obtain ⟨p, _, _, _, hget⟩ := locCompressed_rank N W k hk i hi
  rw [← triuIdx_length]
  by_contra hge
  rw [List.getElem?_eq_none (not_lt.1 hge)] at hget
  cases hget

theorem locCompressed_disjoint (N W : Nat) (hN : 0 < N) (k k' : Nat × Nat × Nat)
    (hk : k ∈ classes N W) (hk' : k' ∈ classes N W) (hne : k' ≠ k) (i : Nat)
    (hi : i ∈ locCompressed k.1 k.2.1 k.2.2 N W) :
    i ∉ locCompressed k'.1 k'.2.1 k'.2.2 N W := by
  intro hi'
  obtain ⟨p, hp, h1, h2, hget⟩ := locCompressed_rank N W k hk i hi
  obtain ⟨p', hp', _, _, hget'⟩ := locCompressed_rank N W k' hk' i hi'
  have hpp : p' = p := by
    rw [hget] at hget'
    exact (Option.some.inj hget').symm
  subst hpp
  obtain ⟨k0, _, _, huniq⟩ := class_partition N W p'.1 p'.2 hN h1 h2
  exact hne ((huniq k' hk' hp').trans (huniq k hk hp).symm)

/-! ### the X-update eigenvalue map over ℝ -/

section eig

theorem sqrt_sq_eq (rho d : ℝ) (hrho : 0 < rho) :
    Real.sqrt (d * d + 4 * rho) * Real.sqrt (d * d + 4 * rho) = d * d + 4 * rho :=
  Real.mul_self_sqrt (by nlinarith [mul_self_nonneg d])

theorem abs_lt_sqrt (rho d : ℝ) (hrho : 0 < rho) : |d| < Real.sqrt (d * d + 4 * rho) := by
  rw [Real.lt_sqrt (abs_nonneg d), sq_abs]
  nlinarith

theorem sqrt_add_pos (rho d : ℝ) (hrho : 0 < rho) : 0 < d + Real.sqrt (d * d + 4 * rho) := by
  have := abs_lt_sqrt rho d hrho
  linarith [neg_abs_le d]

theorem sqrt_sub_pos (rho d : ℝ) (hrho : 0 < rho) : 0 < Real.sqrt (d * d + 4 * rho) - d := by
  have := abs_lt_sqrt rho d hrho
  linarith [le_abs_self d]

theorem eigPinned_eq (rho d : ℝ) :
    eigPinned Real.sqrt rho d = (d + Real.sqrt (d * d + 4 * rho)) / (2 * rho) := by
  unfold eigPinned
  push_cast
  rw [one_div, inv_mul_eq_div]

theorem eig_pos (rho d : ℝ) (hrho : 0 < rho) : 0 < eigPinned Real.sqrt rho d := by
  rw [eigPinned_eq]
  exact div_pos (sqrt_add_pos rho d hrho) (by linarith)

theorem eig_stationary (rho d : ℝ) (hrho : 0 < rho) :
    rho * eigPinned Real.sqrt rho d - (eigPinned Real.sqrt rho d)⁻¹ = d := by
  rw [eigPinned_eq]
  have hp := sqrt_add_pos rho d hrho
  have hsq := sqrt_sq_eq rho d hrho
  have hr : rho ≠ 0 := ne_of_gt hrho
  generalize Real.sqrt (d * d + 4 * rho) = R at hp hsq ⊢
  have hne : d + R ≠ 0 := ne_of_gt hp
  rw [inv_div, mul_div_assoc', mul_comm rho (d + R), mul_div_mul_right _ _ hr,
    div_sub_div _ _ two_ne_zero hne, div_eq_iff (mul_ne_zero two_ne_zero hne)]
  linear_combination hsq

theorem eig_forms_equal (rho d : ℝ) (hrho : 0 < rho) :
    eigRepaired Real.sqrt rho d = eigPinned Real.sqrt rho d := by
  unfold eigRepaired eigPinned
  push_cast
  by_cases hd : d < 0
  · simp only [hd, if_true]
    have hm := sqrt_sub_pos rho d hrho
    have hsq := sqrt_sq_eq rho d hrho
    have hne : Real.sqrt (d * d + 4 * rho) - d ≠ 0 := ne_of_gt hm
    congr 1
    rw [div_eq_iff hne]
    nlinarith [hsq]
  · simp only [hd, if_false]

end eig

end Aux

end FastTicc.Numeric

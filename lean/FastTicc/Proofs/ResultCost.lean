/- Helper lemmas for the cost half of property C06. -/
import FastTicc.Model.Viterbi
import FastTicc.Proofs.Result
import Mathlib.Algebra.Order.Field.Basic
import Mathlib.Tactic.Ring
import Mathlib.Tactic.Linarith

namespace FastTicc.Result
open FastTicc.Viterbi

variable {α : Type} [Field α] [LinearOrder α] [IsStrictOrderedRing α]

set_option linter.unusedSectionVars false

/-- with assignment cost `-log-likelihood`, the assignment cost of a labelling is minus the sum
of the chosen log-likelihoods. -/
theorem assignCost_neg (tab : List (Nat → α)) : ∀ (betas : List α) (ls : List Nat),
    tab.length ≤ betas.length →
    assignCost (withVectorBeta (tab.map (fun r c => - r c)) betas) ls =
      - (List.zipWith (fun r l => r l) tab ls).sum := by
  induction tab with
  | nil =>
    intro betas ls _
    simp [withVectorBeta, assignCost]
  | cons r rs ih =>
    intro betas ls h
    cases betas with
    | nil => simp at h
    | cons b bs =>
      cases ls with
      | nil => simp [withVectorBeta, assignCost]
      | cons l lt =>
        have h' : rs.length ≤ bs.length := by simpa using h
        have := ih bs lt h'
        simp only [withVectorBeta] at this
        simp only [withVectorBeta, List.map_cons, List.zip_cons_cons, assignCost,
          List.zipWith_cons_cons, List.sum_cons, this]
        ring

theorem zip_snd_nonneg (rows : List (Nat → α)) (betas : List α) (hb : ∀ b ∈ betas, 0 ≤ b) :
    ∀ p ∈ withVectorBeta rows betas, 0 ≤ p.2 := by
  intro p hp
  obtain ⟨r, b⟩ := p
  exact hb b (List.of_mem_zip hp).2

/-- number of unmasked consecutive pairs with different labels. -/
def maskedSwitches (mask : List Nat) (ls : List Nat) : Nat :=
  ((List.range (ls.length - 1)).filter
    (fun i => mask.getD i 0 == 1 && ls.getD i 0 != ls.getD (i + 1) 0)).length

theorem maskedSwitches_cons (m : Nat) (ms : List Nat) (l l' : Nat) (lt : List Nat) :
    maskedSwitches (m :: ms) (l :: l' :: lt) =
      (if (m == 1 && l != l') = true then 1 else 0) + maskedSwitches ms (l' :: lt) := by
  unfold maskedSwitches
  simp only [List.length_cons, Nat.add_sub_cancel]
  rw [List.range_succ_eq_map, List.filter_cons, List.filter_map]
  simp only [Function.comp_def, Nat.succ_eq_add_one, List.getD_cons_zero, List.getD_cons_succ]
  split <;> simp [Nat.add_comm]

theorem switchCost_masked (rows : List (Nat → α)) (beta : α) : ∀ (mask : List Nat) (ls : List Nat),
    (∀ x ∈ mask, x = 0 ∨ x = 1) → mask.length = rows.length → ls.length = rows.length →
    switchCost (withVectorBeta rows (mask.map (fun (x : Nat) => beta * (x : α)))) ls =
      beta * ((maskedSwitches mask ls : Nat) : α) := by
  induction rows with
  | nil =>
    intro mask ls _ hlen hl
    obtain rfl : ls = [] := List.length_eq_zero_iff.mp hl
    simp [withVectorBeta, switchCost, maskedSwitches]
  | cons r rs ih =>
    intro mask ls hm hlen hl
    cases mask with
    | nil => simp at hlen
    | cons m ms =>
      cases ls with
      | nil => simp at hl
      | cons l lt =>
        cases lt with
        | nil => simp [withVectorBeta, switchCost, maskedSwitches]
        | cons l' lt =>
          have ih' := ih ms (l' :: lt) (fun x hx => hm x (List.mem_cons_of_mem _ hx))
            (by simpa using hlen) (by simpa using hl)
          simp only [withVectorBeta] at ih'
          simp only [withVectorBeta, List.map_cons, List.zip_cons_cons, switchCost, ih',
            maskedSwitches_cons]
          rcases hm m List.mem_cons_self with rfl | rfl
          · by_cases hll : l = l' <;> simp [hll]
          · by_cases hll : l = l' <;> simp [hll]; ring

end FastTicc.Result

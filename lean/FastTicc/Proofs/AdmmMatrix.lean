/- Helper lemmas for the matrix-level X-update theorems. -/
import FastTicc.Props.C03
import Mathlib.LinearAlgebra.Matrix.NonsingularInverse
import Mathlib.Data.Matrix.Basic
import Mathlib.LinearAlgebra.Matrix.DotProduct
import Mathlib.Algebra.Order.BigOperators.Ring.Finset

namespace FastTicc.Numeric

namespace Aux
open Matrix

variable {n : ℕ}

/-- `Q diag(e) Qᵀ` is symmetric (no hypothesis on `Q`). -/
theorem conj_diag_symm (Q : Matrix (Fin n) (Fin n) ℝ) (e : Fin n → ℝ) :
    (Q * Matrix.diagonal e * Qᵀ).IsSymm := by
  unfold Matrix.IsSymm
  rw [Matrix.transpose_mul, Matrix.transpose_mul, Matrix.transpose_transpose,
    Matrix.diagonal_transpose, Matrix.mul_assoc]

/-- conjugated diagonals multiply entrywise when `Qᵀ Q = 1`. -/
theorem conj_diag_mul (Q : Matrix (Fin n) (Fin n) ℝ) (hQ : Qᵀ * Q = 1) (e f : Fin n → ℝ) :
    (Q * Matrix.diagonal e * Qᵀ) * (Q * Matrix.diagonal f * Qᵀ)
      = Q * Matrix.diagonal (fun i => e i * f i) * Qᵀ := by
  calc (Q * Matrix.diagonal e * Qᵀ) * (Q * Matrix.diagonal f * Qᵀ)
      = Q * (Matrix.diagonal e * ((Qᵀ * Q) * (Matrix.diagonal f * Qᵀ))) := by
        simp only [Matrix.mul_assoc]
    _ = Q * Matrix.diagonal (fun i => e i * f i) * Qᵀ := by
        rw [hQ, Matrix.one_mul, ← Matrix.mul_assoc (Matrix.diagonal e),
          Matrix.diagonal_mul_diagonal, ← Matrix.mul_assoc]

theorem conj_diag_inv (Q : Matrix (Fin n) (Fin n) ℝ) (hQ : Qᵀ * Q = 1) (e : Fin n → ℝ)
    (he : ∀ i, e i ≠ 0) :
    (Q * Matrix.diagonal e * Qᵀ)⁻¹ = Q * Matrix.diagonal (fun i => (e i)⁻¹) * Qᵀ := by
  apply Matrix.inv_eq_right_inv
  rw [conj_diag_mul Q hQ]
  have h1 : (fun i => e i * (e i)⁻¹) = fun _ => (1 : ℝ) :=
    funext fun i => mul_inv_cancel₀ (he i)
  rw [h1, Matrix.diagonal_one, Matrix.mul_one]
  exact mul_eq_one_comm.1 hQ

theorem conj_diag_smul_sub (Q : Matrix (Fin n) (Fin n) ℝ) (rho : ℝ) (e f : Fin n → ℝ) :
    rho • (Q * Matrix.diagonal e * Qᵀ) - Q * Matrix.diagonal f * Qᵀ
      = Q * Matrix.diagonal (fun i => rho * e i - f i) * Qᵀ := by
  have h1 : Matrix.diagonal (fun i => rho * e i - f i)
      = rho • Matrix.diagonal e - Matrix.diagonal f := by
    ext i j
    by_cases h : i = j
    · subst h; simp
    · simp [Matrix.diagonal_apply_ne _ h]
  rw [h1, Matrix.mul_sub, Matrix.sub_mul, Matrix.mul_smul, Matrix.smul_mul]

/-- the quadratic form of `Q diag(e) Qᵀ` in the rotated coordinates `y = Qᵀ x`. -/
theorem conj_diag_quadForm (Q : Matrix (Fin n) (Fin n) ℝ) (e x : Fin n → ℝ) :
    x ⬝ᵥ (Q * Matrix.diagonal e * Qᵀ).mulVec x
      = ∑ i, e i * ((Qᵀ.mulVec x) i * (Qᵀ.mulVec x) i) := by
  rw [← Matrix.mulVec_mulVec, ← Matrix.mulVec_mulVec, Matrix.dotProduct_mulVec,
    ← Matrix.mulVec_transpose]
  simp only [dotProduct, Matrix.mulVec_diagonal]
  exact Finset.sum_congr rfl (fun i _ => by ring)

theorem conj_diag_posDef (Q : Matrix (Fin n) (Fin n) ℝ) (hQ : Qᵀ * Q = 1) (e : Fin n → ℝ)
    (he : ∀ i, 0 < e i) (x : Fin n → ℝ) (hx : x ≠ 0) :
    0 < x ⬝ᵥ (Q * Matrix.diagonal e * Qᵀ).mulVec x := by
  rw [conj_diag_quadForm]
  have hQ' : Q * Qᵀ = 1 := mul_eq_one_comm.1 hQ
  have hy : Qᵀ.mulVec x ≠ 0 := by
    intro h0
    apply hx
    have : Q.mulVec (Qᵀ.mulVec x) = x := by
      rw [Matrix.mulVec_mulVec, hQ', Matrix.one_mulVec]
    rw [← this, h0, Matrix.mulVec_zero]
  obtain ⟨j, hj⟩ : ∃ j, (Qᵀ.mulVec x) j ≠ 0 := by
    by_contra hall
    exact hy (funext fun j => by
      by_contra hj
      exact hall ⟨j, hj⟩)
  refine Finset.sum_pos' (fun i _ => mul_nonneg (he i).le (mul_self_nonneg _))
    ⟨j, Finset.mem_univ j, mul_pos (he j) (mul_self_pos.2 hj)⟩

end Aux

end FastTicc.Numeric

/- Helper lemmas for properties C13, C19 (heap model).  Core Lean only. -/
import FastTicc.Model.Heap

namespace FastTicc.Heap

/-! ### cell access after the primitives -/

theorem cluster_congr {h h' : Heap} {r : Nat} (e : h'.clusters[r]? = h.clusters[r]?) :
    h'.cluster r = h.cluster r := by
  simp [Heap.cluster, List.getD_eq_getElem?_getD, e]

theorem cluster_of_getElem? {h : Heap} {r : Nat} {c : Cluster} (e : h.clusters[r]? = some c) :
    h.cluster r = c := by
  simp [Heap.cluster, List.getD_eq_getElem?_getD, e]

theorem cluster_of_le {h : Heap} {r : Nat} (e : h.clusters.length ≤ r) :
    h.cluster r = emptyCluster := by
  simp [Heap.cluster, List.getD_eq_getElem?_getD, List.getElem?_eq_none e]

theorem cluster_setCluster (h : Heap) (r : Nat) (c : Cluster) (r' : Nat) :
    (h.setCluster r c).cluster r' =
      if r' = r ∧ r < h.clusters.length then c else h.cluster r' := by
  simp only [Heap.cluster, Heap.setCluster, List.getD_eq_getElem?_getD, List.getElem?_set]
  by_cases h1 : r = r'
  · subst h1
    by_cases h2 : r < h.clusters.length <;> simp [h2]
  · have : ¬ r' = r := fun e => h1 e.symm
    simp [h1, this]

theorem cluster_setCluster_ne {h : Heap} {r r' : Nat} (c : Cluster) (hne : r' ≠ r) :
    (h.setCluster r c).cluster r' = h.cluster r' := by
  rw [cluster_setCluster]; simp [hne]

theorem cluster_setCluster_self {h : Heap} {r : Nat} (c : Cluster) (hr : r < h.clusters.length) :
    (h.setCluster r c).cluster r = c := by
  rw [cluster_setCluster]; simp [hr]

theorem cluster_append_left {h h' : Heap} {cs : List Cluster} (e : h'.clusters = h.clusters ++ cs)
    {r : Nat} (hr : r < h.clusters.length) : h'.cluster r = h.cluster r :=
  cluster_congr (by rw [e, List.getElem?_append_left hr])

theorem cluster_append_right {h h' : Heap} {cs : List Cluster} (e : h'.clusters = h.clusters ++ cs)
    {j : Nat} {c : Cluster} (hj : cs[j]? = some c) : h'.cluster (h.clusters.length + j) = c :=
  cluster_of_getElem? (by rw [e, List.getElem?_append_right (by omega)]; simpa using hj)

/-! ### observations as functions of (state cell, cluster cells, K) -/

/-- the member lists of a state's clusters, in order. -/
def memberLists (h : Heap) (st : State) : List (List Nat) :=
  st.clusters.map (fun r => (h.cluster r).members)

/-- the partition invariant as a pure function. -/
def invCore (K : Nat) (labs : Option (List Nat)) (ms : List (List Nat)) : Bool :=
  decide (ms.length = K) &&
  (match labs with
   | none => ms.all (fun m => m == [])
   | some ls =>
     (List.range K).all (fun k =>
       match ms[k]? with
       | some m => m == Repop.members ls k
       | none => false))

theorem InvB_eq (h : Heap) (s : Nat) :
    InvB h s = match h.states[s]? with
      | none => false
      | some st => invCore (h.argsOf st.args).K (st.labels.map (·.2)) (memberLists h st) := by
  unfold InvB Heap.state?
  cases hst : h.states[s]? with
  | none => rfl
  | some st =>
    show (decide _ && _) = invCore _ _ _
    rcases hl : st.labels with _ | ⟨i, ls⟩
    · simp [invCore, memberLists, List.all_map, Function.comp_def]
    · simp only [invCore, memberLists, List.length_map, Option.map_some, List.getElem?_map]
      congr 1
      apply List.all_congr rfl
      intro k
      cases st.clusters[k]? <;> rfl

theorem InvB_congr {h h' : Heap} {t t' : Nat} {st st' : State}
    (hst : h.states[t]? = some st) (hst' : h'.states[t']? = some st')
    (hl : st'.labels.map (·.2) = st.labels.map (·.2))
    (hK : (h'.argsOf st'.args).K = (h.argsOf st.args).K)
    (hm : memberLists h' st' = memberLists h st) : InvB h' t' = InvB h t := by
  rw [InvB_eq, InvB_eq, hst, hst']
  simp only [hl, hK, hm]

theorem view_congr {h h' : Heap} {t : Nat} (hst : h'.states[t]? = h.states[t]?)
    (hcl : ∀ st, h.states[t]? = some st → ∀ r ∈ st.clusters,
      clusterView (h'.cluster r) = clusterView (h.cluster r)) : view h' t = view h t := by
  unfold view Heap.state?
  rw [hst]
  cases hs : h.states[t]? with
  | none => rfl
  | some st =>
    simp only [Option.map_some, Option.some.injEq, StateView.mk.injEq, true_and, and_true]
    exact List.map_congr_left (hcl st hs)

theorem members_of_clusterView {c c' : Cluster} (e : clusterView c' = clusterView c) :
    c'.members = c.members := by
  simp only [clusterView, ClusterView.mk.injEq] at e
  exact e.1

/-! ### the ownership discipline (mirrored by `Owned` in `Props/C13.lean`) -/

structure OwnedP (h : Heap) : Prop where
  wf : ∀ (s : Nat) (st : State), h.states[s]? = some st →
    st.clusters.Nodup ∧ (∀ r ∈ st.clusters, r < h.clusters.length) ∧
    st.clusters.length = (h.argsOf st.args).K
  sep : ∀ (s t : Nat) (ss st : State), s ≠ t → h.states[s]? = some ss → h.states[t]? = some st →
    ∀ r ∈ ss.clusters, r ∉ st.clusters
  args : ∀ (s : Nat) (st : State), h.states[s]? = some st → st.args < h.args.length

def ScoredP (h : Heap) (s : Nat) : Prop :=
  ∀ st : State, h.states[s]? = some st → ∀ r ∈ st.clusters,
    (h.cluster r).logDet = (h.cluster r).trainInv.map (·.val)

/-- the part of a state cell that no modelled write changes except `setClusters` / the statistics
loop (clusters) — labels, cost, list identity are free. -/
def ca (st : State) : List Nat × Nat × Arr := (st.clusters, st.args, st.data)

/-- same states up to labels / cost / identities, same argument cells, same number of cluster
cells. -/
structure Shape (h h' : Heap) : Prop where
  states : h'.states.map ca = h.states.map ca
  args : h'.args = h.args
  clen : h'.clusters.length = h.clusters.length

theorem Shape.refl (h : Heap) : Shape h h := ⟨rfl, rfl, rfl⟩

theorem Shape.trans {a b c : Heap} (h1 : Shape a b) (h2 : Shape b c) : Shape a c :=
  ⟨h2.states.trans h1.states, h2.args.trans h1.args, h2.clen.trans h1.clen⟩

theorem Shape.get {h h' : Heap} (sh : Shape h h') {t : Nat} {st' : State}
    (e : h'.states[t]? = some st') : ∃ st, h.states[t]? = some st ∧ ca st = ca st' := by
  have := congrArg (fun l => l[t]?) sh.states
  simp only [List.getElem?_map, e, Option.map_some] at this
  cases hs : h.states[t]? with
  | none => simp [hs] at this
  | some st => exact ⟨st, rfl, by simpa [hs] using this.symm⟩

theorem Shape.get' {h h' : Heap} (sh : Shape h h') {t : Nat} {st : State}
    (e : h.states[t]? = some st) : ∃ st', h'.states[t]? = some st' ∧ ca st' = ca st := by
  have := congrArg (fun l => l[t]?) sh.states
  simp only [List.getElem?_map, e, Option.map_some] at this
  cases hs : h'.states[t]? with
  | none => simp [hs] at this
  | some st' => exact ⟨st', rfl, by simpa [hs] using this⟩

theorem Shape.length {h h' : Heap} (sh : Shape h h') : h'.states.length = h.states.length := by
  have := congrArg List.length sh.states
  simpa using this

theorem Shape.owned {h h' : Heap} (sh : Shape h h') (ho : OwnedP h) : OwnedP h' := by
  refine ⟨?_, ?_, ?_⟩
  · intro s st' e
    obtain ⟨st, e0, hca⟩ := sh.get e
    simp only [ca, Prod.mk.injEq] at hca
    obtain ⟨w1, w2, w3⟩ := ho.wf s st e0
    rw [← hca.1, ← hca.2.1, sh.clen, Heap.argsOf, sh.args]
    exact ⟨w1, w2, w3⟩
  · intro s t ss' st' hne e1 e2
    obtain ⟨ss, e1', hca1⟩ := sh.get e1
    obtain ⟨st, e2', hca2⟩ := sh.get e2
    simp only [ca, Prod.mk.injEq] at hca1 hca2
    rw [← hca1.1, ← hca2.1]
    exact ho.sep s t ss st hne e1' e2'
  · intro s st' e
    obtain ⟨st, e0, hca⟩ := sh.get e
    simp only [ca, Prod.mk.injEq] at hca
    rw [← hca.2.1, sh.args]
    exact ho.args s st e0

/-! ### folds that only write cluster cells -/

/-- only cluster cells were written (none allocated). -/
structure CO (h h' : Heap) : Prop where
  states : h'.states = h.states
  args : h'.args = h.args
  next : h'.next = h.next
  clen : h'.clusters.length = h.clusters.length

theorem CO.refl (h : Heap) : CO h h := ⟨rfl, rfl, rfl, rfl⟩

theorem CO.trans {a b c : Heap} (h1 : CO a b) (h2 : CO b c) : CO a c :=
  ⟨h2.states.trans h1.states, h2.args.trans h1.args, h2.next.trans h1.next,
    h2.clen.trans h1.clen⟩

theorem CO.shape {h h' : Heap} (c : CO h h') : Shape h h' :=
  ⟨by rw [c.states], c.args, c.clen⟩

theorem CO.setCluster (h : Heap) (r : Nat) (c : Cluster) : CO h (h.setCluster r c) :=
  ⟨rfl, rfl, rfl, by simp [Heap.setCluster]⟩

section gen
variable {ι : Type} (tgt : ι → Option Nat) (upd : ι → Cluster → Cluster)

/-- one write of a cluster-cell fold. -/
def wstep (h : Heap) (i : ι) : Heap :=
  match tgt i with
  | some r => h.setCluster r (upd i (h.cluster r))
  | none => h

theorem wstep_CO (h : Heap) (i : ι) : CO h (wstep tgt upd h i) := by
  unfold wstep; split
  · exact CO.setCluster _ _ _
  · exact CO.refl _

theorem wfold_CO (items : List ι) (h : Heap) : CO h (items.foldl (wstep tgt upd) h) := by
  induction items generalizing h with
  | nil => exact CO.refl _
  | cons i is ih => exact (wstep_CO tgt upd h i).trans (ih _)

theorem wstep_other {h : Heap} {i : ι} {r : Nat} (hne : tgt i ≠ some r) :
    (wstep tgt upd h i).cluster r = h.cluster r := by
  unfold wstep; split
  · rename_i r0 e
    exact cluster_setCluster_ne _ (fun e' => hne (e' ▸ e))
  · rfl

theorem wfold_other (items : List ι) (h : Heap) {r : Nat} (hne : ∀ i ∈ items, tgt i ≠ some r) :
    (items.foldl (wstep tgt upd) h).cluster r = h.cluster r := by
  induction items generalizing h with
  | nil => rfl
  | cons i is ih =>
    rw [List.foldl_cons, ih _ (fun j hj => hne j (List.mem_cons_of_mem _ hj)),
      wstep_other tgt upd (hne i List.mem_cons_self)]

/-- a property of cell contents kept by every write is kept by the fold. -/
theorem wfold_prop (P : Cluster → Prop) (hP : ∀ i c, P c → P (upd i c)) (items : List ι) (h : Heap)
    {r : Nat} (h0 : P (h.cluster r)) : P ((items.foldl (wstep tgt upd) h).cluster r) := by
  induction items generalizing h with
  | nil => exact h0
  | cons i is ih =>
    rw [List.foldl_cons]
    apply ih
    unfold wstep; split
    · rename_i r0 e
      rw [cluster_setCluster]
      split
      · rename_i hr; rw [← hr.1]; exact hP _ _ h0
      · exact h0
    · exact h0

/-- a property established by every write to `r` holds after the fold if some item writes `r`. -/
theorem wfold_hit (Q : Cluster → Prop) (items : List ι) (h : Heap) {r : Nat}
    (hr : r < h.clusters.length)
    (hQ : ∀ i ∈ items, tgt i = some r → ∀ c, Q (upd i c))
    (hex : ∃ i ∈ items, tgt i = some r) : Q ((items.foldl (wstep tgt upd) h).cluster r) := by
  induction items generalizing h with
  | nil => simp at hex
  | cons i is ih =>
    rw [List.foldl_cons]
    by_cases hex' : ∃ j ∈ is, tgt j = some r
    · exact ih _ (by rw [(wstep_CO tgt upd h i).clen]; exact hr)
        (fun j hj => hQ j (List.mem_cons_of_mem _ hj)) hex'
    · have hne : ∀ j ∈ is, tgt j ≠ some r := fun j hj e => hex' ⟨j, hj, e⟩
      rw [wfold_other tgt upd is _ hne]
      obtain ⟨j, hj, ej⟩ := hex
      rcases List.mem_cons.mp hj with rfl | hj
      · unfold wstep
        rw [ej]
        show Q ((h.setCluster r _).cluster r)
        rw [cluster_setCluster_self _ hr]
        exact hQ j List.mem_cons_self ej _
      · exact absurd ej (hne j hj)

end gen

/-! ### the label setter -/

theorem updateMembership_eq (h : Heap) (refs : List Nat) (K : Nat) (ls : List Nat) :
    updateMembership h refs K ls =
      (List.range K).foldl
        (wstep (fun k => refs[k]?) (fun k c => setMembers c (Repop.members ls k))) h := rfl

theorem clearMembership_eq (h : Heap) (refs : List Nat) :
    clearMembership h refs =
      refs.foldl (wstep (fun r => some r) (fun _ c => { c with members := [] })) h := rfl

theorem setMembers_members (c : Cluster) (new : List Nat) : (setMembers c new).members = new := by
  unfold setMembers
  split
  · rename_i e; simp [e]
  · split
    · rfl
    · rename_i e
      exact (Classical.not_not.mp e).symm

theorem members_nil (k : Nat) : Repop.members [] k = [] := by simp [Repop.members]

theorem updateMembership_CO (h : Heap) (refs : List Nat) (K : Nat) (ls : List Nat) :
    CO h (updateMembership h refs K ls) := by
  rw [updateMembership_eq]; exact wfold_CO _ _ _ _

theorem clearMembership_CO (h : Heap) (refs : List Nat) : CO h (clearMembership h refs) := by
  rw [clearMembership_eq]; exact wfold_CO _ _ _ _

theorem updateMembership_other (h : Heap) (refs : List Nat) (K : Nat) (ls : List Nat) {r : Nat}
    (hr : r ∉ refs) : (updateMembership h refs K ls).cluster r = h.cluster r := by
  rw [updateMembership_eq]
  apply wfold_other
  intro k _ e
  exact hr (List.mem_of_getElem? e)

theorem clearMembership_other (h : Heap) (refs : List Nat) {r : Nat}
    (hr : r ∉ refs) : (clearMembership h refs).cluster r = h.cluster r := by
  rw [clearMembership_eq]
  apply wfold_other
  intro r' hr' e
  simp only [Option.some.injEq] at e
  exact hr (e ▸ hr')

theorem updateMembership_hit (h : Heap) (refs : List Nat) (K : Nat) (ls : List Nat)
    (hnd : refs.Nodup) (hal : ∀ r ∈ refs, r < h.clusters.length) {k r : Nat} (hk : k < K)
    (e : refs[k]? = some r) :
    ((updateMembership h refs K ls).cluster r).members = Repop.members ls k := by
  rw [updateMembership_eq]
  refine wfold_hit _ _ (fun c => c.members = Repop.members ls k) _ _
    (hal r (List.mem_of_getElem? e)) ?_ ⟨k, List.mem_range.mpr hk, e⟩
  intro k' _ e' c
  have hlt : k < refs.length := (List.getElem?_eq_some_iff.mp e).1
  have : k = k' := (List.getElem?_inj hlt hnd).mp (e.trans e'.symm)
  subst this
  exact setMembers_members _ _

theorem clearMembership_hit (h : Heap) (refs : List Nat)
    (hal : ∀ r ∈ refs, r < h.clusters.length) {r : Nat} (hr : r ∈ refs) :
    ((clearMembership h refs).cluster r).members = [] := by
  rw [clearMembership_eq]
  exact wfold_hit _ _ (fun c => c.members = []) _ _ (hal r hr) (fun _ _ _ _ => rfl) ⟨r, hr, rfl⟩

theorem invCore_members (K : Nat) (ls : List Nat) :
    invCore K (some ls) ((List.range K).map (fun k => Repop.members ls k)) = true := by
  simp only [invCore, List.length_map, List.length_range, decide_true, Bool.true_and,
    List.all_eq_true, List.mem_range]
  intro k hk
  simp [List.getElem?_map, List.getElem?_range hk]

/-- `assign` when the labelling really changes. -/
theorem assign_eq_of_ne {h : Heap} {s : Nat} {st : State} (hs : h.states[s]? = some st)
    {lab : Nat × List Nat} (hne : st.labels.map (·.2) ≠ some lab.2) :
    assign h s lab =
      if lab.2 = [] then clearMembership (h.setState s { st with labels := some lab }) st.clusters
      else updateMembership (h.setState s { st with labels := some lab }) st.clusters
        (h.argsOf st.args).K lab.2 := by
  unfold assign Heap.state?
  rw [hs]
  simp only [hne, if_false]

theorem assign_eq_of_eq {h : Heap} {s : Nat} {st : State} (hs : h.states[s]? = some st)
    {lab : Nat × List Nat} (he : st.labels.map (·.2) = some lab.2) : assign h s lab = h := by
  unfold assign Heap.state?
  rw [hs]
  simp only [he, if_true]

theorem assign_eq_of_none {h : Heap} {s : Nat} (hs : h.states[s]? = none)
    (lab : Nat × List Nat) : assign h s lab = h := by
  unfold assign Heap.state?
  rw [hs]

theorem setState_shape {h : Heap} {s : Nat} {st st' : State} (hs : h.states[s]? = some st)
    (e : ca st' = ca st) : Shape h (h.setState s st') := by
  refine ⟨?_, rfl, rfl⟩
  show (h.states.set s st').map ca = h.states.map ca
  rw [List.map_set, e]
  apply List.ext_getElem?
  intro i
  rw [List.getElem?_set]
  split
  · rename_i e'; subst e'
    obtain ⟨hlt, hv⟩ := List.getElem?_eq_some_iff.mp hs
    simp [hlt, hv]
  · rfl

/-- the state written by `assign` and the remaining state cells. -/
theorem assign_states {h : Heap} {s : Nat} {st : State} (hs : h.states[s]? = some st)
    (lab : Nat × List Nat) :
    (∃ l, (assign h s lab).states[s]? = some { st with labels := some l } ∧ l.2 = lab.2) ∧
    ∀ t, t ≠ s → (assign h s lab).states[t]? = h.states[t]? := by
  have hlt := (List.getElem?_eq_some_iff.mp hs).1
  by_cases he : st.labels.map (·.2) = some lab.2
  · rw [assign_eq_of_eq hs he]
    refine ⟨?_, fun _ _ => rfl⟩
    rcases hl : st.labels with _ | l
    · simp [hl] at he
    · refine ⟨l, ?_, by simpa [hl] using he⟩
      rw [hs, ← hl]
  · rw [assign_eq_of_ne hs he]
    have key : ∀ h' : Heap, CO (h.setState s { st with labels := some lab }) h' →
        (∃ l, h'.states[s]? = some { st with labels := some l } ∧ l.2 = lab.2) ∧
        ∀ t, t ≠ s → h'.states[t]? = h.states[t]? := by
      intro h' co
      rw [co.states]
      refine ⟨⟨lab, ?_, rfl⟩, fun t ht => ?_⟩
      · show (h.states.set s _)[s]? = _
        rw [List.getElem?_set_self hlt]
      · show (h.states.set s _)[t]? = _
        rw [List.getElem?_set_ne (fun e => ht e.symm)]
    split
    · exact key _ (clearMembership_CO _ _)
    · exact key _ (updateMembership_CO _ _ _ _)

theorem assign_shape (h : Heap) (s : Nat) (lab : Nat × List Nat) : Shape h (assign h s lab) := by
  cases hs : h.states[s]? with
  | none => rw [assign_eq_of_none hs]; exact Shape.refl _
  | some st =>
    by_cases he : st.labels.map (·.2) = some lab.2
    · rw [assign_eq_of_eq hs he]; exact Shape.refl _
    · rw [assign_eq_of_ne hs he]
      have h1 : Shape h (h.setState s { st with labels := some lab }) := setState_shape hs rfl
      split
      · exact h1.trans (clearMembership_CO _ _).shape
      · exact h1.trans (updateMembership_CO _ _ _ _).shape

theorem assign_next (h : Heap) (s : Nat) (lab : Nat × List Nat) : (assign h s lab).next = h.next := by
  cases hs : h.states[s]? with
  | none => rw [assign_eq_of_none hs]
  | some st =>
    by_cases he : st.labels.map (·.2) = some lab.2
    · rw [assign_eq_of_eq hs he]
    · rw [assign_eq_of_ne hs he]
      split
      · exact (clearMembership_CO _ _).next
      · exact (updateMembership_CO _ _ _ _).next

/-- cells that do not belong to the assigned state are not written. -/
theorem assign_cluster_other {h : Heap} {s : Nat} {st : State} (hs : h.states[s]? = some st)
    (lab : Nat × List Nat) {r : Nat} (hr : r ∉ st.clusters) :
    (assign h s lab).cluster r = h.cluster r := by
  by_cases he : st.labels.map (·.2) = some lab.2
  · rw [assign_eq_of_eq hs he]
  · rw [assign_eq_of_ne hs he]
    split
    · rw [clearMembership_other _ _ hr]; rfl
    · rw [updateMembership_other _ _ _ _ hr]; rfl

/-- the member lists after a real change are the derived ones. -/
theorem assign_memberLists {h : Heap} (ho : OwnedP h) {s : Nat} {st : State}
    (hs : h.states[s]? = some st) {lab : Nat × List Nat}
    (hne : st.labels.map (·.2) ≠ some lab.2) :
    st.clusters.map (fun r => ((assign h s lab).cluster r).members) =
      (List.range (h.argsOf st.args).K).map (fun k => Repop.members lab.2 k) := by
  obtain ⟨hnd, hal, hlen⟩ := ho.wf s st hs
  rw [assign_eq_of_ne hs hne]
  apply List.ext_getElem?
  intro k
  rw [List.getElem?_map, List.getElem?_map]
  by_cases hk : k < (h.argsOf st.args).K
  · have hk' : k < st.clusters.length := by omega
    rw [List.getElem?_range hk, List.getElem?_eq_getElem hk']
    simp only [Option.map_some, Option.some.injEq]
    have e : st.clusters[k]? = some st.clusters[k] := List.getElem?_eq_getElem hk'
    split
    · rename_i hnil
      rw [hnil, members_nil]
      exact clearMembership_hit (h.setState s _) _ hal (List.getElem_mem hk')
    · exact updateMembership_hit (h.setState s _) _ _ _ hnd hal hk e
  · rw [List.getElem?_eq_none (by omega), List.getElem?_eq_none (by simp; omega)]
    rfl

theorem argsOf_congr {h h' : Heap} (e : h'.args = h.args) (a : Nat) : h'.argsOf a = h.argsOf a := by
  simp [Heap.argsOf, e]

theorem InvB_congr_cell {h h' : Heap} {t : Nat} (hst : h'.states[t]? = h.states[t]?)
    (hK : ∀ st, h.states[t]? = some st → (h'.argsOf st.args).K = (h.argsOf st.args).K)
    (hm : ∀ st, h.states[t]? = some st → ∀ r ∈ st.clusters,
      (h'.cluster r).members = (h.cluster r).members) : InvB h' t = InvB h t := by
  cases hs : h.states[t]? with
  | none => rw [InvB_eq, InvB_eq, hst, hs]
  | some st =>
    exact InvB_congr hs (hst.trans hs) rfl (hK st hs) (List.map_congr_left (hm st hs))

theorem assign_inv {h : Heap} (ho : OwnedP h) {s : Nat} {st : State}
    (hs : h.states[s]? = some st) (lab : Nat × List Nat)
    (hne : st.labels.map (·.2) ≠ some lab.2 ∨ InvB h s = true) :
    InvB (assign h s lab) s = true := by
  by_cases he : st.labels.map (·.2) = some lab.2
  · rw [assign_eq_of_eq hs he]
    rcases hne with hne | hi
    · exact absurd he hne
    · exact hi
  · obtain ⟨⟨l, hst', hl⟩, -⟩ := assign_states hs lab
    rw [InvB_eq, hst']
    show invCore ((assign h s lab).argsOf st.args).K (some l.2)
      (st.clusters.map (fun r => ((assign h s lab).cluster r).members)) = true
    rw [assign_memberLists ho hs he, argsOf_congr (assign_shape h s lab).args, hl]
    exact invCore_members _ _

theorem assign_frame_P {h : Heap} (ho : OwnedP h) {s t : Nat} (hts : t ≠ s)
    (lab : Nat × List Nat) :
    view (assign h s lab) t = view h t ∧ InvB (assign h s lab) t = InvB h t := by
  cases hs : h.states[s]? with
  | none => rw [assign_eq_of_none hs]; exact ⟨rfl, rfl⟩
  | some st =>
    have hcell := (assign_states hs lab).2 t hts
    have hcl : ∀ stt, h.states[t]? = some stt → ∀ r ∈ stt.clusters,
        (assign h s lab).cluster r = h.cluster r := fun stt htt r hr =>
      assign_cluster_other hs lab (ho.sep t s stt st hts htt hs r hr)
    refine ⟨view_congr hcell (fun stt htt r hr => by rw [hcl stt htt r hr]),
      InvB_congr_cell hcell (fun _ _ => ?_) (fun stt htt r hr => by rw [hcl stt htt r hr])⟩
    rw [argsOf_congr (assign_shape h s lab).args]

/-! ### a new state owning freshly allocated cluster cells -/

theorem getElem?_append_singleton {α : Type} {l : List α} {y x : α} {t : Nat}
    (e : (l ++ [y])[t]? = some x) : (t < l.length ∧ l[t]? = some x) ∨ (t = l.length ∧ x = y) := by
  by_cases ht : t < l.length
  · rw [List.getElem?_append_left ht] at e
    exact Or.inl ⟨ht, e⟩
  · rw [List.getElem?_append_right (by omega)] at e
    have h0 : t - l.length = 0 := by
      cases hh : t - l.length with
      | zero => rfl
      | succ n => simp [hh] at e
    rw [h0] at e
    simp only [List.getElem?_cons_zero, Option.some.injEq] at e
    exact Or.inr ⟨by omega, e.symm⟩

theorem newState_spec {h h' : Heap} (ho : OwnedP h) {s : Nat} {st y : State}
    (hs : h.states[s]? = some st) (hargs : h'.args = h.args) {cs : List Cluster}
    (hcl : h'.clusters = h.clusters ++ cs) (hstates : h'.states = h.states ++ [y])
    (hyargs : y.args = st.args)
    (hycl : y.clusters = List.range' h.clusters.length st.clusters.length)
    (hlen : cs.length = st.clusters.length) :
    OwnedP h' ∧ ∀ t, t < h.states.length → view h' t = view h t ∧ InvB h' t = InvB h t := by
  have hL : h'.clusters.length = h.clusters.length + st.clusters.length := by
    rw [hcl, List.length_append, hlen]
  have hao : ∀ a, h'.argsOf a = h.argsOf a := argsOf_congr hargs
  have hsK := (ho.wf s st hs).2.2
  refine ⟨⟨?_, ?_, ?_⟩, ?_⟩
  · intro t stt e
    rw [hstates] at e
    rcases getElem?_append_singleton e with ⟨_, e⟩ | ⟨_, rfl⟩
    · obtain ⟨w1, w2, w3⟩ := ho.wf t stt e
      exact ⟨w1, fun r hr => by have := w2 r hr; omega, by rw [hao]; exact w3⟩
    · refine ⟨?_, ?_, ?_⟩
      · rw [hycl]; exact List.nodup_range' 1
      · intro r hr
        rw [hycl, List.mem_range'_1] at hr
        omega
      · rw [hycl, List.length_range', hyargs, hao]; exact hsK
  · intro t u stt stu hne e1 e2 r hr hr'
    rw [hstates] at e1 e2
    rcases getElem?_append_singleton e1 with ⟨_, f1⟩ | ⟨ht, f1⟩
    · rcases getElem?_append_singleton e2 with ⟨_, f2⟩ | ⟨hu, f2⟩
      · exact ho.sep t u stt stu hne f1 f2 r hr hr'
      · have := (ho.wf t stt f1).2.1 r hr
        rw [f2, hycl, List.mem_range'_1] at hr'
        omega
    · rcases getElem?_append_singleton e2 with ⟨_, f2⟩ | ⟨hu, f2⟩
      · have := (ho.wf u stu f2).2.1 r hr'
        rw [f1, hycl, List.mem_range'_1] at hr
        omega
      · omega
  · intro t stt e
    rw [hstates] at e
    rw [hargs]
    rcases getElem?_append_singleton e with ⟨_, e⟩ | ⟨_, rfl⟩
    · exact ho.args t stt e
    · rw [hyargs]; exact ho.args s st hs
  · intro t ht
    have hcell : h'.states[t]? = h.states[t]? := by
      rw [hstates, List.getElem?_append_left ht]
    have hcc : ∀ stt, h.states[t]? = some stt → ∀ r ∈ stt.clusters,
        h'.cluster r = h.cluster r := fun stt htt r hr =>
      cluster_append_left hcl ((ho.wf t stt htt).2.1 r hr)
    exact ⟨view_congr hcell (fun stt htt r hr => by rw [hcc stt htt r hr]),
      InvB_congr_cell hcell (fun _ _ => by rw [hao]) (fun stt htt r hr => by rw [hcc stt htt r hr])⟩

/-- … and its member lists / any cell-wise observation preserved by the copy. -/
theorem newState_map {β : Type} (f : Cluster → β) {h h' : Heap} {rs : List Nat} {cs : List Cluster}
    (hcl : h'.clusters = h.clusters ++ cs)
    (hmem : ∀ (j r : Nat), rs[j]? = some r → ∃ c, cs[j]? = some c ∧ f c = f (h.cluster r)) :
    (List.range' h.clusters.length rs.length).map (fun r => f (h'.cluster r)) =
      rs.map (fun r => f (h.cluster r)) := by
  apply List.ext_getElem?
  intro j
  rw [List.getElem?_map, List.getElem?_map]
  by_cases hj : j < rs.length
  · rw [List.getElem?_range' hj, List.getElem?_eq_getElem hj]
    obtain ⟨c, hc, hfc⟩ := hmem j rs[j] (List.getElem?_eq_getElem hj)
    simp only [Option.map_some, Option.some.injEq, Nat.one_mul]
    rw [cluster_append_right hcl hc, hfc]
  · rw [List.getElem?_eq_none (by simp; omega), List.getElem?_eq_none (by omega)]
    rfl

theorem newState_inv {h h' : Heap} {s : Nat} {st y : State}
    (hs : h.states[s]? = some st) (hargs : h'.args = h.args) {cs : List Cluster}
    (hcl : h'.clusters = h.clusters ++ cs) (hstates : h'.states = h.states ++ [y])
    (hyargs : y.args = st.args)
    (hycl : y.clusters = List.range' h.clusters.length st.clusters.length)
    (hlab : y.labels.map (·.2) = st.labels.map (·.2))
    (hmem : ∀ (j r : Nat), st.clusters[j]? = some r →
      ∃ c, cs[j]? = some c ∧ c.members = (h.cluster r).members) :
    InvB h' h.states.length = InvB h s := by
  have hy : h'.states[h.states.length]? = some y := by
    rw [hstates, List.getElem?_append_right (Nat.le_refl _)]; simp
  refine InvB_congr hs hy hlab (by rw [hyargs, argsOf_congr hargs]) ?_
  unfold memberLists
  rw [hycl]
  exact newState_map (fun c => c.members) hcl hmem

/-! ### allocators -/

/-- allocate, for every `r`, a copy `g (cluster r) next` and advance `next` by `d`. -/
def copyAll (g : Cluster → Nat → Cluster) (d : Nat) : List Nat → Heap → List Nat × Heap
  | [], h => ([], h)
  | r :: rs, h =>
    let p := copyAll g d rs
      { h with next := h.next + d, clusters := h.clusters ++ [g (h.cluster r) h.next] }
    (h.clusters.length :: p.1, p.2)

def deepOf (c : Cluster) (i : Nat) : Cluster :=
  { c with computedCov := copyArr c.computedCov i, empCov := copyArr c.empCov (i + 1),
           invCov := copyArr c.invCov (i + 2), mean := copyArr c.mean (i + 3),
           trainInv := copyArr c.trainInv (i + 4) }

def optOf (c : Cluster) (i : Nat) : Cluster :=
  { c with computedCov := some ⟨i, i⟩, trainInv := some ⟨i + 1, i + 1⟩, logDet := some (i + 1) }

theorem clustersDeep_eq (rs : List Nat) (h : Heap) : clustersDeep rs h = copyAll deepOf 5 rs h := by
  induction rs generalizing h with
  | nil => rfl
  | cons r rs ih =>
    simp only [clustersDeep, copyAll, clusterDeep, Heap.allocCluster, ih]
    rfl

theorem optClusters_eq (rs : List Nat) (h : Heap) : optClusters rs h = copyAll optOf 2 rs h := by
  induction rs generalizing h with
  | nil => rfl
  | cons r rs ih =>
    simp only [optClusters, copyAll, Heap.allocCluster, ih]
    rfl

theorem copyAll_frame (g : Cluster → Nat → Cluster) (d : Nat) (rs : List Nat) (h : Heap) :
    (copyAll g d rs h).2.states = h.states ∧ (copyAll g d rs h).2.args = h.args ∧
    (copyAll g d rs h).2.next = h.next + d * rs.length := by
  induction rs generalizing h with
  | nil => exact ⟨rfl, rfl, rfl⟩
  | cons r rs ih =>
    obtain ⟨i1, i2, i3⟩ := ih { h with next := h.next + d, clusters := h.clusters ++ [g (h.cluster r) h.next] }
    refine ⟨i1, i2, ?_⟩
    show (copyAll g d rs _).2.next = _
    rw [i3, List.length_cons, Nat.mul_succ]
    show h.next + d + _ = _
    omega

theorem copyAll_spec (g : Cluster → Nat → Cluster) (d : Nat) (rs : List Nat) (h : Heap)
    (hal : ∀ r ∈ rs, r < h.clusters.length) :
    (copyAll g d rs h).1 = List.range' h.clusters.length rs.length ∧
    ∃ cs, (copyAll g d rs h).2.clusters = h.clusters ++ cs ∧ cs.length = rs.length ∧
      ∀ (j r : Nat), rs[j]? = some r →
        ∃ i, h.next ≤ i ∧ i + d ≤ h.next + d * rs.length ∧ cs[j]? = some (g (h.cluster r) i) := by
  induction rs generalizing h with
  | nil => exact ⟨rfl, [], by simp [copyAll], rfl, by simp⟩
  | cons r rs ih =>
    have hr := hal r List.mem_cons_self
    obtain ⟨i1, cs, i2, i3, i4⟩ :=
      ih { h with next := h.next + d, clusters := h.clusters ++ [g (h.cluster r) h.next] }
        (by intro x hx; have := hal x (List.mem_cons_of_mem _ hx); simp; omega)
    refine ⟨?_, g (h.cluster r) h.next :: cs, ?_, by simp [i3], ?_⟩
    · show h.clusters.length :: (copyAll g d rs _).1 = _
      rw [i1]
      simp [List.range'_succ]
    · show (copyAll g d rs _).2.clusters = _
      rw [i2]
      simp
    · intro j x hj
      cases j with
      | zero =>
        simp only [List.getElem?_cons_zero, Option.some.injEq] at hj
        subst hj
        refine ⟨h.next, Nat.le_refl _, ?_, by simp⟩
        rw [List.length_cons, Nat.mul_succ]; omega
      | succ j =>
        simp only [List.getElem?_cons_succ] at hj
        obtain ⟨i, b1, b2, b3⟩ := i4 j x hj
        have hx : x < h.clusters.length := hal x (List.mem_cons_of_mem _ (List.mem_of_getElem? hj))
        refine ⟨i, ?_, ?_, ?_⟩
        · simp at b1; omega
        · rw [List.length_cons, Nat.mul_succ]; simp at b2; omega
        · simp only [List.getElem?_cons_succ]
          rw [b3]
          congr 2
          exact cluster_congr (by simp [List.getElem?_append_left hx])

theorem shallowState_eq {h : Heap} {s : Nat} {st : State} (hs : h.states[s]? = some st) :
    shallowState h s = (h.states.length,
      { h with next := h.next + 1, states := h.states ++ [{ st with clustersId := h.next }] }) := by
  unfold shallowState Heap.state?
  rw [hs]
  rfl

theorem setClusters_eq {h : Heap} {s : Nat} {st : State} (hs : h.states[s]? = some st)
    (refs : List Nat) :
    setClusters h s refs =
      { h with next := h.next + 1,
               states := h.states.set s { st with clusters := refs, clustersId := h.next } } := by
  unfold setClusters Heap.state?
  rw [hs]
  rfl

theorem set_append_singleton {α : Type} (l : List α) (x y : α) :
    (l ++ [x]).set l.length y = l ++ [y] := by
  rw [List.set_append]
  simp

/-! ### "a new state over fresh copies of the clusters of `st`" -/

/-- `h'` is `h` plus one state (a copy of `st` up to identities) whose cluster list consists of
freshly allocated cells, the `j`-th being `g (cluster st.clusters[j]) i` for some `i`. -/
def Fresh (g : Cluster → Nat → Cluster) (h h' : Heap) (st : State) : Prop :=
  ∃ (cs : List Cluster) (y : State), h'.args = h.args ∧ h'.clusters = h.clusters ++ cs ∧
    h'.states = h.states ++ [y] ∧ y.args = st.args ∧
    y.clusters = List.range' h.clusters.length st.clusters.length ∧ y.labels = st.labels ∧
    y.cost = st.cost ∧ y.data = st.data ∧ cs.length = st.clusters.length ∧
    ∀ (j r : Nat), st.clusters[j]? = some r → ∃ i, cs[j]? = some (g (h.cluster r) i)

theorem Fresh.spec {g : Cluster → Nat → Cluster} (hg : ∀ c i, (g c i).members = c.members)
    {h h' : Heap} {s : Nat} {st : State} (ho : OwnedP h) (hs : h.states[s]? = some st)
    (F : Fresh g h h' st) :
    OwnedP h' ∧ (∀ t, t < h.states.length → view h' t = view h t ∧ InvB h' t = InvB h t) ∧
    InvB h' h.states.length = InvB h s ∧
    (view h' h.states.length).map (·.labels) = (view h s).map (·.labels) ∧
    h'.states.length = h.states.length + 1 := by
  obtain ⟨cs, y, f1, f2, f3, f4, f5, f6, f7, f8, f9, f10⟩ := F
  obtain ⟨o1, o2⟩ := newState_spec ho hs f1 f2 f3 f4 f5 f9
  refine ⟨o1, o2, ?_, ?_, by rw [f3]; simp⟩
  · refine newState_inv hs f1 f2 f3 f4 f5 (by rw [f6]) ?_
    intro j r hj
    obtain ⟨i, hi⟩ := f10 j r hj
    exact ⟨_, hi, hg _ _⟩
  · have hy : h'.states[h.states.length]? = some y := by
      rw [f3, List.getElem?_append_right (Nat.le_refl _)]; simp
    simp [view, Heap.state?, hy, hs, f6]

/-- contents of the new state's cells. -/
theorem Fresh.cell {g : Cluster → Nat → Cluster} {h h' : Heap} {st : State}
    (F : Fresh g h h' st) : ∃ y, h'.states[h.states.length]? = some y ∧
      ∀ r' ∈ y.clusters, ∃ r i, r ∈ st.clusters ∧ h'.cluster r' = g (h.cluster r) i := by
  obtain ⟨cs, y, f1, f2, f3, f4, f5, f6, f7, f8, f9, f10⟩ := F
  refine ⟨y, by rw [f3, List.getElem?_append_right (Nat.le_refl _)]; simp, ?_⟩
  intro r' hr'
  rw [f5, List.mem_range'_1] at hr'
  have hj : r' - h.clusters.length < st.clusters.length := by omega
  obtain ⟨i, hi⟩ := f10 _ _ (List.getElem?_eq_getElem hj)
  refine ⟨_, i, List.getElem_mem hj, ?_⟩
  have := cluster_append_right f2 hi
  rwa [show h.clusters.length + (r' - h.clusters.length) = r' by omega] at this

/-- shallow state copy, then copies of all clusters, then `state.clusters = copies`. -/
def copyState (g : Cluster → Nat → Cluster) (d : Nat) (h : Heap) (s : Nat) (st : State) : Heap :=
  setClusters (copyAll g d st.clusters (shallowState h s).2).2 h.states.length
    (copyAll g d st.clusters (shallowState h s).2).1

theorem copyState_fresh (g : Cluster → Nat → Cluster) (d : Nat) {h : Heap} {s : Nat} {st : State}
    (hal : ∀ r ∈ st.clusters, r < h.clusters.length) (hs : h.states[s]? = some st) :
    Fresh g h (copyState g d h s st) st := by
  unfold copyState
  rw [shallowState_eq hs]
  generalize hh1 : (⟨h.clusters, h.args, h.states ++ [{ st with clustersId := h.next }], h.next + 1⟩ : Heap) = h1
  have e1s : h1.states = h.states ++ [{ st with clustersId := h.next }] := by rw [← hh1]
  have e1c : h1.clusters = h.clusters := by rw [← hh1]
  have e1a : h1.args = h.args := by rw [← hh1]
  obtain ⟨c1, c2, _⟩ := copyAll_frame g d st.clusters h1
  obtain ⟨c4, cs, c5, c6, c7⟩ := copyAll_spec g d st.clusters h1 (by rw [e1c]; exact hal)
  have hn : (copyAll g d st.clusters h1).2.states[h.states.length]? =
      some { st with clustersId := h.next } := by
    rw [c1, e1s, List.getElem?_append_right (Nat.le_refl _)]; simp
  show Fresh g h (setClusters (copyAll g d st.clusters h1).2 h.states.length
    (copyAll g d st.clusters h1).1) st
  rw [setClusters_eq hn]
  refine ⟨cs, ⟨(copyAll g d st.clusters h1).1, (copyAll g d st.clusters h1).2.next, st.labels,
    st.args, st.data, st.pll, st.cost⟩, ?_, ?_, ?_, rfl, ?_, rfl, rfl, rfl, c6, ?_⟩
  · exact c2.trans e1a
  · show (copyAll g d st.clusters h1).2.clusters = _
    rw [c5, e1c]
  · show (copyAll g d st.clusters h1).2.states.set _ _ = _
    rw [c1, e1s, set_append_singleton]
  · show (copyAll g d st.clusters h1).1 = _
    rw [c4, e1c]
  · intro j r hj
    obtain ⟨i, _, _, hi⟩ := c7 j r hj
    refine ⟨i, ?_⟩
    rw [hi]
    congr 2
    exact cluster_congr (by rw [e1c])

/-- `optPhase` order: copies first, then the shallow state copy. -/
def copyState' (g : Cluster → Nat → Cluster) (d : Nat) (h : Heap) (s : Nat) (st : State) : Heap :=
  setClusters (shallowState (copyAll g d st.clusters h).2 s).2 h.states.length
    (copyAll g d st.clusters h).1

theorem copyState'_fresh (g : Cluster → Nat → Cluster) (d : Nat) {h : Heap} {s : Nat} {st : State}
    (hal : ∀ r ∈ st.clusters, r < h.clusters.length) (hs : h.states[s]? = some st) :
    Fresh g h (copyState' g d h s st) st := by
  unfold copyState'
  obtain ⟨c1, c2, _⟩ := copyAll_frame g d st.clusters h
  obtain ⟨c4, cs, c5, c6, c7⟩ := copyAll_spec g d st.clusters h hal
  generalize copyAll g d st.clusters h = p at *
  obtain ⟨refs, h1⟩ := p
  simp only at c1 c2 c4 c5
  have hs1 : h1.states[s]? = some st := by rw [c1]; exact hs
  show Fresh g h (setClusters (shallowState h1 s).2 h.states.length refs) st
  rw [shallowState_eq hs1]
  have hn : (⟨h1.clusters, h1.args, h1.states ++ [{ st with clustersId := h1.next }], h1.next + 1⟩ : Heap).states[h.states.length]? =
      some { st with clustersId := h1.next } := by
    show (h1.states ++ _)[h.states.length]? = _
    rw [c1, List.getElem?_append_right (Nat.le_refl _)]; simp
  rw [setClusters_eq hn]
  refine ⟨cs, ⟨refs, h1.next + 1, st.labels, st.args, st.data, st.pll, st.cost⟩,
    c2, c5, ?_, rfl, c4, rfl, rfl, rfl, c6, ?_⟩
  · show (h1.states ++ _).set _ _ = _
    rw [c1, set_append_singleton]
  · intro j r hj
    obtain ⟨i, _, _, hi⟩ := c7 j r hj
    exact ⟨i, hi⟩

/-! ### repopulation phase -/

theorem exists_of_InvB {h : Heap} {s : Nat} (hi : InvB h s = true) :
    ∃ st, h.states[s]? = some st := by
  rw [InvB_eq] at hi
  cases hs : h.states[s]? with
  | none => simp [hs] at hi
  | some st => exact ⟨st, rfl⟩

theorem fresh_shape (h : Heap) : Shape h h.fresh.2 := ⟨rfl, rfl, rfl⟩

theorem assign_fold_spec (n : Nat) (moves : List (List Nat)) (h3 : Heap) (ho : OwnedP h3)
    (hi : InvB h3 n = true) :
    OwnedP (moves.foldl (fun h' ls => assign h'.fresh.2 n (h'.fresh.1, ls)) h3) ∧
    InvB (moves.foldl (fun h' ls => assign h'.fresh.2 n (h'.fresh.1, ls)) h3) n = true ∧
    ∀ t, t ≠ n →
      view (moves.foldl (fun h' ls => assign h'.fresh.2 n (h'.fresh.1, ls)) h3) t = view h3 t ∧
      InvB (moves.foldl (fun h' ls => assign h'.fresh.2 n (h'.fresh.1, ls)) h3) t = InvB h3 t := by
  induction moves generalizing h3 with
  | nil => exact ⟨ho, hi, fun _ _ => ⟨rfl, rfl⟩⟩
  | cons ls moves ih =>
    rw [List.foldl_cons]
    have ho' : OwnedP h3.fresh.2 := (fresh_shape h3).owned ho
    have hi' : InvB h3.fresh.2 n = true := hi
    obtain ⟨stn, hn⟩ := exists_of_InvB hi'
    obtain ⟨j1, j2, j3⟩ := ih (assign h3.fresh.2 n (h3.fresh.1, ls))
      ((assign_shape _ _ _).owned ho') (assign_inv ho' hn _ (Or.inr hi'))
    refine ⟨j1, j2, fun t ht => ?_⟩
    obtain ⟨a1, a2⟩ := assign_frame_P ho' ht (h3.fresh.1, ls)
    obtain ⟨b1, b2⟩ := j3 t ht
    exact ⟨b1.trans a1, b2.trans a2⟩

theorem deepOf_members (c : Cluster) (i : Nat) : (deepOf c i).members = c.members := rfl
theorem optOf_members (c : Cluster) (i : Nat) : (optOf c i).members = c.members := rfl

theorem repopPhase_eq {h : Heap} {s : Nat} {st : State} (hs : h.states[s]? = some st)
    (moves : List (List Nat)) :
    repopPhase h s moves =
      if !needsRepop h st then (s, h)
      else (h.states.length,
        moves.foldl (fun h' ls => assign h'.fresh.2 h.states.length (h'.fresh.1, ls))
          (copyState deepOf 5 h s st)) := by
  unfold repopPhase Heap.state? copyState
  rw [hs]
  simp only
  split
  · rfl
  · rw [shallowState_eq hs]
    simp only [clustersDeep_eq]

theorem repop_phase_P {h : Heap} (ho : OwnedP h) {s : Nat} (hi : InvB h s = true)
    (moves : List (List Nat)) :
    OwnedP (repopPhase h s moves).2 ∧ InvB (repopPhase h s moves).2 (repopPhase h s moves).1 = true ∧
    ∀ t, t < h.states.length → view (repopPhase h s moves).2 t = view h t ∧
      InvB (repopPhase h s moves).2 t = InvB h t := by
  obtain ⟨st, hs⟩ := exists_of_InvB hi
  rw [repopPhase_eq hs]
  split
  · exact ⟨ho, hi, fun _ _ => ⟨rfl, rfl⟩⟩
  · obtain ⟨f1, f2, f3, _, _⟩ := Fresh.spec deepOf_members ho hs
      (copyState_fresh deepOf 5 (ho.wf s st hs).2.1 hs)
    obtain ⟨j1, j2, j3⟩ := assign_fold_spec h.states.length moves _ f1 (f3.trans hi)
    refine ⟨j1, j2, fun t ht => ?_⟩
    obtain ⟨a1, a2⟩ := j3 t (by omega)
    obtain ⟨b1, b2⟩ := f2 t ht
    exact ⟨a1.trans b1, a2.trans b2⟩

/-! ### optimisation phase -/

theorem optPhase_eq {h : Heap} {s : Nat} {st : State} (hs : h.states[s]? = some st) :
    optPhase h s = (h.states.length, copyState' optOf 2 h s st) := by
  unfold optPhase Heap.state? copyState'
  rw [hs]
  simp only [optClusters_eq]
  have c1 := (copyAll_frame optOf 2 st.clusters h).1
  have hs1 : (copyAll optOf 2 st.clusters h).2.states[s]? = some st := by rw [c1]; exact hs
  rw [shallowState_eq hs1, c1]

theorem opt_phase_P {h : Heap} (ho : OwnedP h) {s : Nat} (hi : InvB h s = true) :
    OwnedP (optPhase h s).2 ∧ InvB (optPhase h s).2 (optPhase h s).1 = true ∧
    ScoredP (optPhase h s).2 (optPhase h s).1 ∧
    (view (optPhase h s).2 (optPhase h s).1).map (·.labels) = (view h s).map (·.labels) ∧
    ∀ t, t < h.states.length → view (optPhase h s).2 t = view h t ∧
      InvB (optPhase h s).2 t = InvB h t := by
  obtain ⟨st, hs⟩ := exists_of_InvB hi
  rw [optPhase_eq hs]
  have F := copyState'_fresh optOf 2 (ho.wf s st hs).2.1 hs
  obtain ⟨f1, f2, f3, f4, _⟩ := Fresh.spec optOf_members ho hs F
  refine ⟨f1, f3.trans hi, ?_, f4, f2⟩
  obtain ⟨y, hy, hc⟩ := F.cell
  intro y' hy' r' hr'
  rw [hy] at hy'
  obtain ⟨r, i, _, e⟩ := hc r' (by rw [Option.some.inj hy']; exact hr')
  show ((copyState' optOf 2 h s st).cluster r').logDet = _
  rw [e]
  rfl

/-! ### statistics phase -/

def statsOf (c : Cluster) (i : Nat) : Cluster :=
  { c with empCov := some ⟨i, i⟩, mean := some ⟨i + 1, i + 1⟩ }

theorem statsOf_members (c : Cluster) (i : Nat) : (statsOf c i).members = c.members := rfl

/-- one iteration of the statistics loop. -/
def statsStep (n : Nat) (h : Heap) (k : Nat) : Heap :=
  match h.state? n with
  | none => h
  | some stn =>
    match stn.clusters[k]? with
    | none => h
    | some r =>
      (⟨h.clusters ++ [statsOf (h.cluster r) h.next], h.args, h.states, h.next + 2⟩ : Heap).setState n
        { stn with clusters := stn.clusters.set k h.clusters.length }

theorem statsPhase_eq {h : Heap} {s : Nat} {st : State} (hs : h.states[s]? = some st) :
    statsPhase h s = (h.states.length,
      (List.range (h.argsOf st.args).K).foldl (statsStep h.states.length)
        ⟨h.clusters, h.args, h.states ++ [{ st with clustersId := h.next }], h.next + 1⟩) := by
  unfold statsPhase Heap.state?
  rw [hs]
  simp only
  rw [shallowState_eq hs]
  simp only
  have : (h.states ++ [{ st with clustersId := h.next }])[h.states.length]? =
      some { st with clustersId := h.next } := by
    rw [List.getElem?_append_right (Nat.le_refl _)]; simp
  simp only [this, Option.map_some, Option.getD_some]
  rfl

theorem range'_drop_set (L k : Nat) (l : List Nat) (hk : k < l.length) :
    (List.range' L k ++ l.drop k).set k (L + k) = List.range' L (k + 1) ++ l.drop (k + 1) := by
  rw [List.set_append, List.length_range', if_neg (Nat.lt_irrefl _), Nat.sub_self,
    List.drop_eq_getElem_cons hk, List.set_cons_zero, List.range'_concat]
  simp

theorem stats_loop {h : Heap} {st : State} (hal : ∀ r ∈ st.clusters, r < h.clusters.length)
    (x : State) (hx : x.clusters = st.clusters) (nx : Nat) (k : Nat) (hk : k ≤ st.clusters.length) :
    ∃ (cs : List Cluster) (nk : Nat),
      (List.range k).foldl (statsStep h.states.length) ⟨h.clusters, h.args, h.states ++ [x], nx⟩ =
        ⟨h.clusters ++ cs, h.args,
          h.states ++ [{ x with clusters := List.range' h.clusters.length k ++ st.clusters.drop k }], nk⟩ ∧
      cs.length = k ∧
      ∀ (j r : Nat), j < k → st.clusters[j]? = some r → ∃ i, cs[j]? = some (statsOf (h.cluster r) i) := by
  induction k with
  | zero =>
    refine ⟨[], nx, ?_, rfl, fun j r hj => absurd hj (Nat.not_lt_zero _)⟩
    simp [← hx]
  | succ k ih =>
    obtain ⟨cs, nk, e, hl, hm⟩ := ih (by omega)
    have hk' : k < st.clusters.length := by omega
    have hr := hal _ (List.getElem_mem hk')
    rw [List.range_succ, List.foldl_append, e]
    have hget : (List.range' h.clusters.length k ++ st.clusters.drop k)[k]? = some st.clusters[k] := by
      rw [List.getElem?_append, List.length_range', if_neg (Nat.lt_irrefl _), Nat.sub_self,
        List.getElem?_drop, Nat.add_zero, List.getElem?_eq_getElem hk']
    refine ⟨cs ++ [statsOf (h.cluster st.clusters[k]) nk], nk + 2, ?_, by simp [hl], ?_⟩
    · simp only [List.foldl_cons, List.foldl_nil, statsStep, Heap.state?,
        List.getElem?_concat_length, hget, Heap.setState, set_append_singleton,
        range'_drop_set _ _ _ hk', List.length_append, hl, List.append_assoc]
      congr 3
      rw [cluster_append_left (h := h) (h' := ⟨h.clusters ++ cs, _, _, _⟩) (cs := cs) rfl hr]
    · intro j r hj hjr
      by_cases hjk : j < k
      · obtain ⟨i, hi⟩ := hm j r hjk hjr
        exact ⟨i, by rw [List.getElem?_append_left (by omega)]; exact hi⟩
      · have : j = k := by omega
        subst this
        rw [List.getElem?_eq_getElem hk'] at hjr
        refine ⟨nk, ?_⟩
        rw [List.getElem?_append_right (by omega), hl, Nat.sub_self, ← Option.some.inj hjr]
        rfl

theorem statsPhase_fresh {h : Heap} (ho : OwnedP h) {s : Nat} {st : State}
    (hs : h.states[s]? = some st) :
    (statsPhase h s).1 = h.states.length ∧ Fresh statsOf h (statsPhase h s).2 st := by
  obtain ⟨_, hal, hK⟩ := ho.wf s st hs
  rw [statsPhase_eq hs, ← hK]
  obtain ⟨cs, nk, e, hl, hm⟩ := stats_loop hal { st with clustersId := h.next } rfl (h.next + 1)
    st.clusters.length (Nat.le_refl _)
  refine ⟨rfl, ?_⟩
  simp only
  rw [e]
  refine ⟨cs, _, rfl, rfl, rfl, rfl, ?_, rfl, rfl, rfl, hl, ?_⟩
  · simp
  · intro j r hj
    exact hm j r (List.getElem?_eq_some_iff.mp hj).1 hj

theorem stats_phase_P {h : Heap} (ho : OwnedP h) {s : Nat} (hi : InvB h s = true) :
    OwnedP (statsPhase h s).2 ∧ InvB (statsPhase h s).2 (statsPhase h s).1 = true ∧
    (view (statsPhase h s).2 (statsPhase h s).1).map (·.labels) = (view h s).map (·.labels) ∧
    ∀ t, t < h.states.length → view (statsPhase h s).2 t = view h t ∧
      InvB (statsPhase h s).2 t = InvB h t := by
  obtain ⟨st, hs⟩ := exists_of_InvB hi
  obtain ⟨e, F⟩ := statsPhase_fresh ho hs
  obtain ⟨f1, f2, f3, f4, _⟩ := Fresh.spec statsOf_members ho hs F
  rw [e]
  exact ⟨f1, f3.trans hi, f4, f2⟩

/-! ### relabelling phase -/

def rsc (c : Cluster) : Cluster :=
  { c with invCov := c.trainInv, logDet := c.trainInv.map (·.val) }

theorem refreshScoring_eq (h : Heap) (refs : List Nat) (K : Nat) :
    refreshScoring h refs K =
      (List.range K).foldl (wstep (fun k => refs[k]?) (fun _ c => rsc c)) h := rfl

theorem refreshScoring_CO (h : Heap) (refs : List Nat) (K : Nat) :
    CO h (refreshScoring h refs K) := by
  rw [refreshScoring_eq]; exact wfold_CO _ _ _ _

theorem refreshScoring_cell (h : Heap) (refs : List Nat) (K : Nat) (r : Nat) :
    (refreshScoring h refs K).cluster r = h.cluster r ∨
      (r ∈ refs ∧ (refreshScoring h refs K).cluster r = rsc (h.cluster r)) := by
  by_cases hr : r ∈ refs
  · rw [refreshScoring_eq]
    have := wfold_prop (fun k => refs[k]?) (fun _ c => rsc c)
      (fun c' => c' = h.cluster r ∨ c' = rsc (h.cluster r))
      (by
        intro _ c hc
        rcases hc with rfl | rfl
        · exact Or.inr rfl
        · exact Or.inr rfl)
      (List.range K) h (r := r) (Or.inl rfl)
    rcases this with e | e
    · exact Or.inl e
    · exact Or.inr ⟨hr, e⟩
  · left
    rw [refreshScoring_eq]
    apply wfold_other
    intro k _ e
    exact hr (List.mem_of_getElem? e)

theorem refreshScoring_view {h : Heap} {refs : List Nat} (K : Nat)
    (hsc : ∀ r ∈ refs, (h.cluster r).logDet = (h.cluster r).trainInv.map (·.val)) (r : Nat) :
    clusterView ((refreshScoring h refs K).cluster r) = clusterView (h.cluster r) := by
  rcases refreshScoring_cell h refs K r with e | ⟨hr, e⟩
  · rw [e]
  · rw [e]
    simp only [clusterView, rsc, ClusterView.mk.injEq, true_and]
    exact (hsc r hr).symm

theorem view_labels {h : Heap} {n : Nat} {st : State} (hn : h.states[n]? = some st) :
    (view h n).bind (·.labels) = st.labels.map (·.2) := by
  simp [view, Heap.state?, hn]

def setCost (h : Heap) (n : Nat) (cost : Nat) : Heap :=
  match h.state? n with
  | none => h
  | some stn => h.setState n { stn with cost := some cost }

theorem setCost_spec {h : Heap} {n : Nat} {stn : State} (hn : h.states[n]? = some stn) (cost : Nat) :
    Shape h (setCost h n cost) ∧ (∀ t, InvB (setCost h n cost) t = InvB h t) ∧
    (∀ t, t ≠ n → view (setCost h n cost) t = view h t) ∧
    (view (setCost h n cost) n).bind (·.labels) = (view h n).bind (·.labels) := by
  have hlt := (List.getElem?_eq_some_iff.mp hn).1
  have e : setCost h n cost = h.setState n { stn with cost := some cost } := by
    unfold setCost Heap.state?; rw [hn]
  have hself : (setCost h n cost).states[n]? = some { stn with cost := some cost } := by
    rw [e]; show (h.states.set n _)[n]? = _; rw [List.getElem?_set_self hlt]
  have hne : ∀ t, t ≠ n → (setCost h n cost).states[t]? = h.states[t]? := by
    intro t ht
    rw [e]; show (h.states.set n _)[t]? = _; rw [List.getElem?_set_ne (fun e => ht e.symm)]
  have hcl : ∀ r, (setCost h n cost).cluster r = h.cluster r := by
    intro r; rw [e]; rfl
  have hargs : (setCost h n cost).args = h.args := by rw [e]; rfl
  refine ⟨by rw [e]; exact setState_shape hn rfl, ?_, ?_, ?_⟩
  · intro t
    by_cases ht : t = n
    · subst ht
      exact InvB_congr hn hself rfl (by rw [argsOf_congr hargs])
        (List.map_congr_left (fun r _ => by rw [hcl r]))
    · exact InvB_congr_cell (hne t ht) (fun _ _ => by rw [argsOf_congr hargs])
        (fun _ _ r _ => by rw [hcl r])
  · intro t ht
    exact view_congr (hne t ht) (fun _ _ r _ => by rw [hcl r])
  · rw [view_labels hself, view_labels hn]

theorem relabelPhase_eq {h : Heap} {s : Nat} {st : State} (hs : h.states[s]? = some st)
    (newLabels : List Nat) (cost : Nat) :
    relabelPhase h s newLabels cost =
      ((refreshScoring h st.clusters (h.argsOf st.args).K).states.length,
        setCost (assign (copyState deepOf 5 (refreshScoring h st.clusters (h.argsOf st.args).K) s st).fresh.2
          (refreshScoring h st.clusters (h.argsOf st.args).K).states.length
          ((copyState deepOf 5 (refreshScoring h st.clusters (h.argsOf st.args).K) s st).fresh.1, newLabels))
          (refreshScoring h st.clusters (h.argsOf st.args).K).states.length cost) := by
  have co := refreshScoring_CO h st.clusters (h.argsOf st.args).K
  have hs0 : (refreshScoring h st.clusters (h.argsOf st.args).K).states[s]? = some st := by
    rw [co.states]; exact hs
  unfold relabelPhase
  rw [show h.state? s = some st from hs]
  simp only
  generalize refreshScoring h st.clusters (h.argsOf st.args).K = h0 at *
  unfold copyState
  rw [shallowState_eq hs0]
  simp only [clustersDeep_eq]
  split
  · rename_i heq
    simp only [setCost]
    rw [show Heap.state? _ _ = none from heq]
  · rename_i stn heq
    simp only [setCost]
    rw [show Heap.state? _ _ = some stn from heq]

theorem relabel_phase_P {h : Heap} (ho : OwnedP h) {s : Nat} (hi : InvB h s = true)
    (hsc : ScoredP h s) (newLabels : List Nat) (cost : Nat) :
    OwnedP (relabelPhase h s newLabels cost).2 ∧
    InvB (relabelPhase h s newLabels cost).2 (relabelPhase h s newLabels cost).1 = true ∧
    (view (relabelPhase h s newLabels cost).2 (relabelPhase h s newLabels cost).1).bind (·.labels) =
      some newLabels ∧
    ∀ t, t < h.states.length → view (relabelPhase h s newLabels cost).2 t = view h t ∧
      InvB (relabelPhase h s newLabels cost).2 t = InvB h t := by
  obtain ⟨st, hs⟩ := exists_of_InvB hi
  rw [relabelPhase_eq hs]
  -- refresh
  have co := refreshScoring_CO h st.clusters (h.argsOf st.args).K
  have hv := refreshScoring_view (h.argsOf st.args).K (hsc st hs)
  generalize refreshScoring h st.clusters (h.argsOf st.args).K = h0 at *
  have ho0 : OwnedP h0 := co.shape.owned ho
  have hs0 : h0.states[s]? = some st := by rw [co.states]; exact hs
  have hview0 : ∀ t, view h0 t = view h t := fun t =>
    view_congr (by rw [co.states]) (fun _ _ r _ => hv r)
  have hinv0 : ∀ t, InvB h0 t = InvB h t := fun t =>
    InvB_congr_cell (by rw [co.states]) (fun _ _ => by rw [argsOf_congr co.args])
      (fun _ _ r _ => members_of_clusterView (hv r))
  have hlen : h0.states.length = h.states.length := by rw [co.states]
  rw [hlen]
  -- copy
  obtain ⟨f1, f2, f3, _, f5⟩ := Fresh.spec deepOf_members ho0 hs0
    (copyState_fresh deepOf 5 (ho0.wf s st hs0).2.1 hs0)
  rw [hlen] at f2 f3 f5
  generalize copyState deepOf 5 h0 s st = h3 at *
  -- assign
  have ho4 : OwnedP h3.fresh.2 := (fresh_shape h3).owned f1
  have hi4 : InvB h3.fresh.2 h.states.length = true := f3.trans ((hinv0 s).trans hi)
  obtain ⟨stn, hn⟩ := exists_of_InvB hi4
  have hi5 := assign_inv ho4 hn (h3.fresh.1, newLabels) (Or.inr hi4)
  have ho5 := (assign_shape h3.fresh.2 h.states.length (h3.fresh.1, newLabels)).owned ho4
  obtain ⟨⟨l, hn5, hl⟩, -⟩ := assign_states hn (h3.fresh.1, newLabels)
  have hfr := fun t (ht : t ≠ h.states.length) => assign_frame_P ho4 ht (h3.fresh.1, newLabels)
  generalize assign h3.fresh.2 h.states.length (h3.fresh.1, newLabels) = h5 at *
  -- cost
  obtain ⟨c1, c2, c3, c4⟩ := setCost_spec hn5 cost
  refine ⟨c1.owned ho5, (c2 _).trans hi5, ?_, fun t ht => ?_⟩
  · rw [c4, view_labels hn5]
    simpa using hl
  · have htn : t ≠ h.states.length := by omega
    obtain ⟨a1, a2⟩ := hfr t htn
    obtain ⟨b1, b2⟩ := f2 t ht
    exact ⟨(c3 t htn).trans (a1.trans (b1.trans (hview0 t))),
      (c2 t).trans (a2.trans (b2.trans (hinv0 t)))⟩

/-! ### deep copies of a state -/

/-- the argument bundle written by `argsDeep`. -/
def argsCopy (repaired : Bool) (x : Args) (i : Nat) : Args :=
  if repaired then { x with lam := copyParam x.lam i, beta := copyParam x.beta (i + 1) } else x

theorem deepState_eq (repaired : Bool) {h : Heap} {s : Nat} {st : State}
    (hs : h.states[s]? = some st) :
    deepState repaired h s =
      (h.states.length,
        ⟨(copyAll deepOf 5 st.clusters h).2.clusters,
         h.args ++ [argsCopy repaired (h.argsOf st.args) (h.next + 5 * st.clusters.length)],
         h.states ++ [⟨(copyAll deepOf 5 st.clusters h).1,
            h.next + 5 * st.clusters.length + (if repaired then 2 else 0),
            st.labels.map (fun l => (h.next + 5 * st.clusters.length + (if repaired then 2 else 0) + 1, l.2)),
            h.args.length,
            ⟨h.next + 5 * st.clusters.length + (if repaired then 2 else 0) + 2, st.data.val⟩,
            copyArr st.pll (h.next + 5 * st.clusters.length + (if repaired then 2 else 0) + 3),
            st.cost⟩],
         h.next + 5 * st.clusters.length + (if repaired then 2 else 0) + 4⟩) := by
  obtain ⟨c1, c2, c3⟩ := copyAll_frame deepOf 5 st.clusters h
  unfold deepState
  rw [show h.state? s = some st from hs]
  simp only [clustersDeep_eq]
  cases repaired
  · simp only [argsDeep, Heap.allocArgs, Heap.allocState, argsCopy, Heap.argsOf, c1, c2, c3]
    rfl
  · simp only [argsDeep, Heap.allocArgs, Heap.allocState, argsCopy, Heap.argsOf, c1, c2, c3]
    rfl

theorem copyArr_val (a : Option Arr) (i : Nat) (ha : a ≠ none) :
    (copyArr a i).map (·.val) = a.map (·.val) := by
  cases a with
  | none => exact absurd rfl ha
  | some x => rfl

theorem deepCopy_same_view_P (repaired : Bool) {h : Heap} {s : Nat} {st : State}
    (hs : h.states[s]? = some st) (hal : ∀ r ∈ st.clusters, r < h.clusters.length)
    (hfit : ∀ r ∈ st.clusters, (h.cluster r).mean ≠ none ∧ (h.cluster r).empCov ≠ none ∧
      (h.cluster r).trainInv ≠ none ∧ (h.cluster r).computedCov ≠ none) :
    view (deepState repaired h s).2 (deepState repaired h s).1 = view h s ∧
    view (deepState repaired h s).2 s = view h s := by
  rw [deepState_eq repaired hs]
  obtain ⟨c4, cs, c5, c6, c7⟩ := copyAll_spec deepOf 5 st.clusters h hal
  have hlt := (List.getElem?_eq_some_iff.mp hs).1
  constructor
  · simp only [view, Heap.state?, List.getElem?_concat_length, hs, Option.map_some,
      Option.some.injEq, StateView.mk.injEq, and_true, Option.map_map]
    refine ⟨by cases st.labels <;> rfl, ?_⟩
    rw [c4]
    refine newState_map clusterView (h' := ⟨_, _, _, _⟩) c5 ?_
    intro j r hj
    obtain ⟨i, _, _, hi⟩ := c7 j r hj
    refine ⟨_, hi, ?_⟩
    obtain ⟨f1, f2, f3, f4⟩ := hfit r (List.mem_of_getElem? hj)
    simp only [clusterView, deepOf, ClusterView.mk.injEq, true_and, and_true]
    exact ⟨copyArr_val _ _ f1, copyArr_val _ _ f2, copyArr_val _ _ f3, copyArr_val _ _ f4⟩
  · refine view_congr ?_ ?_
    · show (h.states ++ _)[s]? = _
      rw [List.getElem?_append_left hlt]
    · intro st' hs' r hr
      rw [hs] at hs'
      refine congrArg clusterView (cluster_congr ?_)
      show (copyAll deepOf 5 st.clusters h).2.clusters[r]? = _
      rw [c5, List.getElem?_append_left (hal r (Option.some.inj hs' ▸ hr))]

/-! ### reachability -/

theorem mem_arrObjs {o : Obj} {a : Option Arr} : o ∈ arrObjs a ↔ ∃ x, a = some x ∧ o = .obj x.id := by
  cases a <;> simp [arrObjs]

theorem mem_paramObjs {o : Obj} {p : Param} : o ∈ paramObjs p ↔ ∃ x, p = .array x ∧ o = .obj x.id := by
  cases p <;> simp [paramObjs]

theorem mem_clusterObjs {o : Obj} {h : Heap} {r : Nat} :
    o ∈ clusterObjs h r ↔ o = .cluster r ∨ ∃ x, o = .obj x.id ∧
      ((h.cluster r).computedCov = some x ∨ (h.cluster r).empCov = some x ∨
       (h.cluster r).invCov = some x ∨ (h.cluster r).mean = some x ∨
       (h.cluster r).trainInv = some x) := by
  simp only [clusterObjs, List.mem_cons, List.mem_append, mem_arrObjs]
  constructor
  · rintro (h | ((((⟨x, h1, h2⟩ | ⟨x, h1, h2⟩) | ⟨x, h1, h2⟩) | ⟨x, h1, h2⟩) | ⟨x, h1, h2⟩))
    · exact Or.inl h
    all_goals exact Or.inr ⟨x, h2, by simp [h1]⟩
  · rintro (h | ⟨x, h1, (h2 | h2 | h2 | h2 | h2)⟩)
    · exact Or.inl h
    · exact Or.inr (Or.inl (Or.inl (Or.inl (Or.inl ⟨x, h2, h1⟩))))
    · exact Or.inr (Or.inl (Or.inl (Or.inl (Or.inr ⟨x, h2, h1⟩))))
    · exact Or.inr (Or.inl (Or.inl (Or.inr ⟨x, h2, h1⟩)))
    · exact Or.inr (Or.inl (Or.inr ⟨x, h2, h1⟩))
    · exact Or.inr (Or.inr ⟨x, h2, h1⟩)

/-- every reachable object, by kind. -/
theorem mem_reachable {o : Obj} {h : Heap} {s : Nat} {st : State} (hs : h.states[s]? = some st) :
    o ∈ reachable h s ↔
      o = .obj st.clustersId ∨ (∃ r ∈ st.clusters, o ∈ clusterObjs h r) ∨
      (∃ l, st.labels = some l ∧ o = .obj l.1) ∨ o = .args st.args ∨
      o ∈ paramObjs (h.argsOf st.args).lam ∨ o ∈ paramObjs (h.argsOf st.args).beta ∨
      o = .obj st.data.id ∨ o ∈ arrObjs st.pll := by
  unfold reachable
  rw [show h.state? s = some st from hs]
  simp only [List.mem_append, List.mem_flatMap, List.mem_cons, List.not_mem_nil, or_false]
  cases st.labels <;> simp [or_assoc]

theorem reachable_congr {h h' : Heap} {s : Nat} {st : State} (hs : h.states[s]? = some st)
    (hs' : h'.states[s]? = some st) (hc : ∀ r ∈ st.clusters, h'.cluster r = h.cluster r)
    (ha : h'.argsOf st.args = h.argsOf st.args) (o : Obj) :
    o ∈ reachable h' s ↔ o ∈ reachable h s := by
  rw [mem_reachable hs, mem_reachable hs', ha]
  have : (∃ r ∈ st.clusters, o ∈ clusterObjs h' r) ↔ (∃ r ∈ st.clusters, o ∈ clusterObjs h r) := by
    constructor
    · rintro ⟨r, hr, ho⟩
      refine ⟨r, hr, ?_⟩
      rw [mem_clusterObjs] at ho ⊢
      rwa [hc r hr] at ho
    · rintro ⟨r, hr, ho⟩
      refine ⟨r, hr, ?_⟩
      rw [mem_clusterObjs] at ho ⊢
      rwa [hc r hr]
  rw [this]

theorem copyParam_id {p : Param} {i : Nat} {a : Arr} (e : copyParam p i = .array a) : a.id = i := by
  cases p with
  | scalar v => simp [copyParam] at e
  | array b =>
    simp only [copyParam, Param.array.injEq] at e
    rw [← e]

theorem copyArr_id {a : Option Arr} {i : Nat} {x : Arr} (e : copyArr a i = some x) : x.id = i := by
  simp only [copyArr, Option.some.injEq] at e
  rw [← e]

/-- what the source state can reach, by kind. -/
theorem reachable_kind {h : Heap} (ho : OwnedP h) {s : Nat} {st : State}
    (hs : h.states[s]? = some st) {o : Obj} (hmem : o ∈ reachable h s) :
    (∃ j, o = .obj j) ∨ (∃ r, o = .cluster r ∧ r < h.clusters.length) ∨ o = .args st.args := by
  rw [mem_reachable hs] at hmem
  rcases hmem with e | ⟨r, hr, e⟩ | ⟨l, _, e⟩ | e | e | e | e | e
  · exact Or.inl ⟨_, e⟩
  · rw [mem_clusterObjs] at e
    rcases e with e | ⟨x, e, _⟩
    · exact Or.inr (Or.inl ⟨r, e, (ho.wf s st hs).2.1 r hr⟩)
    · exact Or.inl ⟨_, e⟩
  · exact Or.inl ⟨_, e⟩
  · exact Or.inr (Or.inr e)
  · obtain ⟨x, _, e⟩ := mem_paramObjs.mp e; exact Or.inl ⟨_, e⟩
  · obtain ⟨x, _, e⟩ := mem_paramObjs.mp e; exact Or.inl ⟨_, e⟩
  · exact Or.inl ⟨_, e⟩
  · obtain ⟨x, _, e⟩ := mem_arrObjs.mp e; exact Or.inl ⟨_, e⟩

theorem deepCopy_disjoint_P {h : Heap} (ho : OwnedP h) {s : Nat} {st : State}
    (hs : h.states[s]? = some st)
    (hfresh : ∀ o ∈ reachable h s, ∀ i, o = .obj i → i < h.next) :
    ∀ o ∈ reachable (deepState true h s).2 (deepState true h s).1,
      o ∉ reachable (deepState true h s).2 s := by
  obtain ⟨_, hal, _⟩ := ho.wf s st hs
  have haa := ho.args s st hs
  have hlt := (List.getElem?_eq_some_iff.mp hs).1
  obtain ⟨c4, cs, c5, c6, c7⟩ := copyAll_spec deepOf 5 st.clusters h hal
  have e := deepState_eq true hs
  simp only [reduceIte] at e
  rw [e]
  simp only
  generalize hH : (Heap.mk _ _ _ _) = H'
  have eC : H'.clusters = h.clusters ++ cs := by rw [← hH]; exact c5
  have eA : H'.args = h.args ++ [argsCopy true (h.argsOf st.args) (h.next + 5 * st.clusters.length)] := by
    rw [← hH]
  have hs' : H'.states[s]? = some st := by
    rw [← hH]; show (h.states ++ _)[s]? = _; rw [List.getElem?_append_left hlt]; exact hs
  have hy : H'.states[h.states.length]? = some ⟨(copyAll deepOf 5 st.clusters h).1,
      h.next + 5 * st.clusters.length + 2,
      st.labels.map (fun l => (h.next + 5 * st.clusters.length + 2 + 1, l.2)),
      h.args.length, ⟨h.next + 5 * st.clusters.length + 2 + 2, st.data.val⟩,
      copyArr st.pll (h.next + 5 * st.clusters.length + 2 + 3), st.cost⟩ := by
    rw [← hH]; exact List.getElem?_concat_length
  have hold : ∀ o, o ∈ reachable H' s ↔ o ∈ reachable h s := by
    refine reachable_congr hs hs' (fun r hr => cluster_append_left eC (hal r hr)) ?_
    simp only [Heap.argsOf, eA, List.getD_eq_getElem?_getD, List.getElem?_append_left haa]
  have hnewargs : H'.argsOf h.args.length =
      argsCopy true (h.argsOf st.args) (h.next + 5 * st.clusters.length) := by
    simp [Heap.argsOf, eA, List.getD_eq_getElem?_getD]
  intro o hnew hsrc
  rw [hold] at hsrc
  -- classify the new state's objects
  have hk : (∃ j, o = .obj j ∧ h.next ≤ j) ∨ (∃ r, o = .cluster r ∧ h.clusters.length ≤ r) ∨
      o = .args h.args.length := by
    rw [mem_reachable hy] at hnew
    simp only at hnew
    rcases hnew with e | ⟨r', hr', e⟩ | ⟨l, hl, e⟩ | e | e | e | e | e
    · exact Or.inl ⟨_, e, by omega⟩
    · rw [c4, List.mem_range'_1] at hr'
      have hj : r' - h.clusters.length < st.clusters.length := by omega
      obtain ⟨i, b1, _, hi⟩ := c7 _ _ (List.getElem?_eq_getElem hj)
      have hcell := cluster_append_right eC hi
      rw [show h.clusters.length + (r' - h.clusters.length) = r' by omega] at hcell
      rw [mem_clusterObjs, hcell] at e
      rcases e with e | ⟨x, e, hx⟩
      · exact Or.inr (Or.inl ⟨r', e, hr'.1⟩)
      · refine Or.inl ⟨_, e, ?_⟩
        simp only [deepOf] at hx
        rcases hx with hx | hx | hx | hx | hx <;> (have := copyArr_id hx; omega)
    · cases hst : st.labels with
      | none => simp [hst] at hl
      | some l0 =>
        simp only [hst, Option.map_some, Option.some.injEq] at hl
        refine Or.inl ⟨_, e, ?_⟩
        rw [← hl]
        simp only
        omega
    · exact Or.inr (Or.inr e)
    · rw [hnewargs] at e
      obtain ⟨x, hx, e⟩ := mem_paramObjs.mp e
      simp only [argsCopy, reduceIte] at hx
      have := copyParam_id hx
      exact Or.inl ⟨_, e, by omega⟩
    · rw [hnewargs] at e
      obtain ⟨x, hx, e⟩ := mem_paramObjs.mp e
      simp only [argsCopy, reduceIte] at hx
      have := copyParam_id hx
      exact Or.inl ⟨_, e, by omega⟩
    · exact Or.inl ⟨_, e, by omega⟩
    · obtain ⟨x, hx, e⟩ := mem_arrObjs.mp e
      have := copyArr_id hx
      exact Or.inl ⟨_, e, by omega⟩
  rcases hk with ⟨j, rfl, hj⟩ | ⟨r, rfl, hr⟩ | rfl
  · have := hfresh _ hsrc j rfl
    omega
  · rcases reachable_kind ho hs hsrc with ⟨j, e⟩ | ⟨r', e, hr'⟩ | e
    · cases e
    · cases e; omega
    · cases e
  · rcases reachable_kind ho hs hsrc with ⟨j, e⟩ | ⟨r', e, hr'⟩ | e
    · cases e
    · cases e
    · simp only [Obj.args.injEq] at e; omega

/-! ### caller-owned data (C19): unconditional frame -/

/-- the caller-owned part of a state cell. -/
def da (st : State) : Arr × Nat := (st.data, st.args)

/-- argument cells untouched; every existing state keeps its data / argument references. -/
structure Grow (h h' : Heap) : Prop where
  args : h'.args = h.args
  len : h.states.length ≤ h'.states.length
  states : ∀ t, t < h.states.length → h'.states[t]?.map da = h.states[t]?.map da

theorem Grow.refl (h : Heap) : Grow h h := ⟨rfl, Nat.le_refl _, fun _ _ => rfl⟩

theorem Grow.trans {a b c : Heap} (h1 : Grow a b) (h2 : Grow b c) : Grow a c :=
  ⟨h2.args.trans h1.args, Nat.le_trans h1.len h2.len, fun t ht =>
    (h2.states t (Nat.lt_of_lt_of_le ht h1.len)).trans (h1.states t ht)⟩

theorem Grow.of_map {h h' : Heap} (ha : h'.args = h.args)
    (hs : h'.states.map da = h.states.map da) : Grow h h' := by
  refine ⟨ha, ?_, fun t _ => ?_⟩
  · have := congrArg List.length hs
    simp only [List.length_map] at this
    omega
  · have := congrArg (fun l => l[t]?) hs
    simpa only [List.getElem?_map] using this

theorem Shape.grow {h h' : Heap} (sh : Shape h h') : Grow h h' := by
  refine Grow.of_map sh.args ?_
  have := congrArg (List.map (fun p : List Nat × Nat × Arr => (p.2.2, p.2.1))) sh.states
  simp only [List.map_map] at this
  exact this

theorem map_set_eq {α β : Type} {f : α → β} {l : List α} {s : Nat} {a b : α}
    (hs : l[s]? = some a) (e : f b = f a) : (l.set s b).map f = l.map f := by
  rw [List.map_set, e]
  apply List.ext_getElem?
  intro i
  rw [List.getElem?_set]
  split
  · rename_i e'; subst e'
    obtain ⟨hlt, hv⟩ := List.getElem?_eq_some_iff.mp hs
    simp [hlt, hv]
  · rfl

theorem Grow.append {h : Heap} (cl : List Cluster) (y : State) (nx : Nat) :
    Grow h ⟨cl, h.args, h.states ++ [y], nx⟩ :=
  ⟨rfl, by simp, fun t ht => by show (h.states ++ [y])[t]?.map da = _; rw [List.getElem?_append_left ht]⟩

theorem Grow.clusters {h : Heap} (cl : List Cluster) (nx : Nat) :
    Grow h ⟨cl, h.args, h.states, nx⟩ := ⟨rfl, Nat.le_refl _, fun _ _ => rfl⟩

theorem shallowState_grow (h : Heap) (s : Nat) : Grow h (shallowState h s).2 := by
  cases hs : h.states[s]? with
  | none =>
    unfold shallowState; rw [show h.state? s = none from hs]; exact Grow.refl _
  | some st => rw [shallowState_eq hs]; exact Grow.append _ _ _

theorem setClusters_grow (h : Heap) (s : Nat) (refs : List Nat) : Grow h (setClusters h s refs) := by
  cases hs : h.states[s]? with
  | none =>
    unfold setClusters; rw [show h.state? s = none from hs]; exact Grow.refl _
  | some st =>
    rw [setClusters_eq hs]
    exact Grow.of_map rfl (map_set_eq hs rfl)

theorem copyAll_grow (g : Cluster → Nat → Cluster) (d : Nat) (rs : List Nat) (h : Heap) :
    Grow h (copyAll g d rs h).2 := by
  obtain ⟨c1, c2, _⟩ := copyAll_frame g d rs h
  exact Grow.of_map c2 (by rw [c1])

theorem copyState_grow (g : Cluster → Nat → Cluster) (d : Nat) (h : Heap) (s : Nat) (st : State) :
    Grow h (copyState g d h s st) :=
  ((shallowState_grow h s).trans (copyAll_grow _ _ _ _)).trans (setClusters_grow _ _ _)

theorem copyState'_grow (g : Cluster → Nat → Cluster) (d : Nat) (h : Heap) (s : Nat) (st : State) :
    Grow h (copyState' g d h s st) :=
  ((copyAll_grow _ _ _ _).trans (shallowState_grow _ s)).trans (setClusters_grow _ _ _)

theorem foldl_grow {β : Type} (step : Heap → β → Heap) (hstep : ∀ h b, Grow h (step h b))
    (l : List β) (h : Heap) : Grow h (l.foldl step h) := by
  induction l generalizing h with
  | nil => exact Grow.refl _
  | cons b l ih => exact (hstep h b).trans (ih _)

theorem setCost_grow (h : Heap) (n cost : Nat) : Grow h (setCost h n cost) := by
  cases hn : h.states[n]? with
  | none => unfold setCost; rw [show h.state? n = none from hn]; exact Grow.refl _
  | some stn => exact (setCost_spec hn cost).1.grow

theorem statsStep_grow (n : Nat) (h : Heap) (k : Nat) : Grow h (statsStep n h k) := by
  unfold statsStep
  cases hn : h.state? n with
  | none => exact Grow.refl _
  | some stn =>
    simp only
    split
    · exact Grow.refl _
    · exact (Grow.clusters _ _).trans (Grow.of_map rfl (map_set_eq (l := h.states) hn rfl))

theorem repopPhase_grow (h : Heap) (s : Nat) (moves : List (List Nat)) :
    Grow h (repopPhase h s moves).2 := by
  cases hs : h.states[s]? with
  | none => unfold repopPhase; rw [show h.state? s = none from hs]; exact Grow.refl _
  | some st =>
    rw [repopPhase_eq hs]
    split
    · exact Grow.refl _
    · refine (copyState_grow _ _ h s st).trans (foldl_grow _ ?_ _ _)
      intro h' ls
      exact (fresh_shape h').grow.trans (assign_shape _ _ _).grow

theorem statsPhase_grow (h : Heap) (s : Nat) : Grow h (statsPhase h s).2 := by
  cases hs : h.states[s]? with
  | none => unfold statsPhase; rw [show h.state? s = none from hs]; exact Grow.refl _
  | some st =>
    rw [statsPhase_eq hs]
    exact (Grow.append _ _ _).trans (foldl_grow _ (statsStep_grow _) _ _)

theorem optPhase_grow (h : Heap) (s : Nat) : Grow h (optPhase h s).2 := by
  cases hs : h.states[s]? with
  | none => unfold optPhase; rw [show h.state? s = none from hs]; exact Grow.refl _
  | some st => rw [optPhase_eq hs]; exact copyState'_grow _ _ _ _ _

theorem relabelPhase_grow (h : Heap) (s : Nat) (newLabels : List Nat) (cost : Nat) :
    Grow h (relabelPhase h s newLabels cost).2 := by
  cases hs : h.states[s]? with
  | none => unfold relabelPhase; rw [show h.state? s = none from hs]; exact Grow.refl _
  | some st =>
    rw [relabelPhase_eq hs]
    exact ((((refreshScoring_CO _ _ _).shape.grow.trans (copyState_grow _ _ _ s st)).trans
      (fresh_shape _).grow).trans (assign_shape _ _ _).grow).trans (setCost_grow _ _ _)

theorem Grow.callerOwned {h h' : Heap} (g : Grow h h') {t : Nat} (ht : t < h.states.length) :
    (h'.state? t).map (fun st => (st.data, h'.argsOf st.args)) =
      (h.state? t).map (fun st => (st.data, h.argsOf st.args)) := by
  have := congrArg (Option.map (fun p : Arr × Nat => (p.1, h.argsOf p.2))) (g.states t ht)
  simp only [Option.map_map] at this
  simp only [Heap.state?, argsOf_congr g.args]
  exact this

theorem Shape.callerOwned {h h' : Heap} (sh : Shape h h') (t : Nat) :
    (h'.state? t).map (fun st => (st.data, h'.argsOf st.args)) =
      (h.state? t).map (fun st => (st.data, h.argsOf st.args)) := by
  have h1 := congrArg (fun l => l[t]?) sh.states
  simp only [List.getElem?_map] at h1
  have := congrArg (Option.map (fun p : List Nat × Nat × Arr => (p.2.2, h.argsOf p.2.1))) h1
  simp only [Option.map_map] at this
  simp only [Heap.state?, argsOf_congr sh.args]
  exact this

theorem deepState_args (repaired : Bool) (h : Heap) (s : Nat) {a : Nat} (ha : a < h.args.length) :
    (deepState repaired h s).2.args[a]? = h.args[a]? := by
  cases hs : h.states[s]? with
  | none => unfold deepState; rw [show h.state? s = none from hs]
  | some st =>
    rw [deepState_eq repaired hs]
    exact List.getElem?_append_left ha

/-! ### the initial model and the concrete witnesses -/

theorem allocEmptyClusters_eq (n : Nat) (h : Heap) :
    allocEmptyClusters n h =
      (List.range' h.clusters.length n,
        ⟨h.clusters ++ List.replicate n emptyCluster, h.args, h.states, h.next⟩) := by
  induction n generalizing h with
  | zero => simp [allocEmptyClusters]
  | succ n ih =>
    simp only [allocEmptyClusters, Heap.allocCluster, ih, List.length_append, List.length_singleton,
      List.range'_succ, List.replicate_succ, List.append_assoc, List.singleton_append]

theorem init_P (K : Nat) (ls : List Nat) :
    OwnedP (assign (emptyModel ⟨[], [⟨.scalar 0, .scalar 0, K⟩], [], 2⟩ 0 ⟨0, 0⟩).2
      (emptyModel ⟨[], [⟨.scalar 0, .scalar 0, K⟩], [], 2⟩ 0 ⟨0, 0⟩).1 (1, ls)) ∧
    InvB (assign (emptyModel ⟨[], [⟨.scalar 0, .scalar 0, K⟩], [], 2⟩ 0 ⟨0, 0⟩).2
      (emptyModel ⟨[], [⟨.scalar 0, .scalar 0, K⟩], [], 2⟩ 0 ⟨0, 0⟩).1 (1, ls)) 
      (emptyModel ⟨[], [⟨.scalar 0, .scalar 0, K⟩], [], 2⟩ 0 ⟨0, 0⟩).1 = true := by
  have e : emptyModel ⟨[], [⟨.scalar 0, .scalar 0, K⟩], [], 2⟩ 0 ⟨0, 0⟩ =
      (0, ⟨List.replicate K emptyCluster, [⟨.scalar 0, .scalar 0, K⟩],
        [⟨List.range' 0 K, 2, none, 0, ⟨0, 0⟩, none, none⟩], 3⟩) := by
    simp [emptyModel, allocEmptyClusters_eq, Heap.argsOf, Heap.fresh, Heap.allocState]
  rw [e]
  simp only
  have ho : OwnedP ⟨List.replicate K emptyCluster, [⟨.scalar 0, .scalar 0, K⟩],
      [⟨List.range' 0 K, 2, none, 0, ⟨0, 0⟩, none, none⟩], 3⟩ := by
    refine ⟨?_, ?_, ?_⟩
    · intro s st hs
      match s with
      | 0 =>
        simp only [List.getElem?_cons_zero, Option.some.injEq] at hs
        subst hs
        refine ⟨List.nodup_range' 1, ?_, by simp [Heap.argsOf]⟩
        intro r hr
        rw [List.mem_range'_1] at hr
        simp; omega
      | n + 1 => simp at hs
    · intro s t ss st hne hs ht
      match s, t with
      | 0, 0 => exact absurd rfl hne
      | n + 1, _ => simp at hs
      | 0, n + 1 => simp at ht
    · intro s st hs
      match s with
      | 0 =>
        simp only [List.getElem?_cons_zero, Option.some.injEq] at hs
        subst hs
        simp
      | n + 1 => simp at hs
  exact ⟨(assign_shape _ _ _).owned ho, assign_inv ho (st := ⟨List.range' 0 K, 2, none, 0, ⟨0, 0⟩, none, none⟩) rfl _ (Or.inl (by simp))⟩

/-- the heap of `shallow_assign_hazard`: one state, one (empty) cluster, no labels yet. -/
def hazardHeap : Heap :=
  ⟨[emptyCluster], [⟨.scalar 0, .scalar 0, 1⟩], [⟨[0], 0, none, 0, ⟨1, 0⟩, none, none⟩], 2⟩

/-- the heap of `deepCopy_pinned_shares`: an array-valued sparsity weight. -/
def pinnedHeap : Heap :=
  ⟨[], [⟨.array ⟨0, 7⟩, .scalar 0, 0⟩], [⟨[], 1, none, 0, ⟨2, 0⟩, none, none⟩], 3⟩

theorem owned_single {h : Heap} {st : State} (hs : h.states = [st]) (h1 : st.clusters.Nodup)
    (h2 : ∀ r ∈ st.clusters, r < h.clusters.length) (h3 : st.clusters.length = (h.argsOf st.args).K)
    (h4 : st.args < h.args.length) : OwnedP h := by
  refine ⟨?_, ?_, ?_⟩
  · intro s st' e
    rw [hs] at e
    match s with
    | 0 => simp only [List.getElem?_cons_zero, Option.some.injEq] at e; subst e; exact ⟨h1, h2, h3⟩
    | n + 1 => simp at e
  · intro s t ss st' hne e1 e2
    rw [hs] at e1 e2
    match s, t with
    | 0, 0 => exact absurd rfl hne
    | n + 1, _ => simp at e1
    | 0, n + 1 => simp at e2
  · intro s st' e
    rw [hs] at e
    match s with
    | 0 => simp only [List.getElem?_cons_zero, Option.some.injEq] at e; subst e; exact h4
    | n + 1 => simp at e

theorem hazard_owned : OwnedP hazardHeap :=
  owned_single (st := ⟨[0], 0, none, 0, ⟨1, 0⟩, none, none⟩) rfl (by decide) (by decide) (by decide)
    (by decide)

theorem pinned_owned : OwnedP pinnedHeap :=
  owned_single (st := ⟨[], 1, none, 0, ⟨2, 0⟩, none, none⟩) rfl (by decide) (by decide) (by decide)
    (by decide)

theorem hazard_inv : InvB hazardHeap 0 = true := by decide

theorem hazard_broken :
    InvB (assign (shallowState hazardHeap 0).2 (shallowState hazardHeap 0).1
      ((shallowState hazardHeap 0).2.next, [0, 0])) 0 = false := by decide

theorem pinned_shared :
    Obj.obj 0 ∈ reachable (deepState false pinnedHeap 0).2 (deepState false pinnedHeap 0).1 ∧
    Obj.obj 0 ∈ reachable (deepState false pinnedHeap 0).2 0 := by decide

/-! ### fitted clusters (the `Fitted` hypothesis of `deepCopy_same_view`) -/

/-- the four array-valued attributes the view reports are present. -/
def fitC (c : Cluster) : Prop :=
  c.mean ≠ none ∧ c.empCov ≠ none ∧ c.trainInv ≠ none ∧ c.computedCov ≠ none

/-- mean and empirical covariance are present (after the statistics phase). -/
def halfC (c : Cluster) : Prop := c.mean ≠ none ∧ c.empCov ≠ none

def FittedP (h : Heap) (s : Nat) : Prop :=
  ∀ st : State, h.states[s]? = some st → ∀ r ∈ st.clusters, fitC (h.cluster r)

def HalfP (h : Heap) (s : Nat) : Prop :=
  ∀ st : State, h.states[s]? = some st → ∀ r ∈ st.clusters, halfC (h.cluster r)

def fitV (v : ClusterView) : Prop :=
  v.mean ≠ none ∧ v.empCov ≠ none ∧ v.trainInv ≠ none ∧ v.computedCov ≠ none

theorem fitC_iff_view (c : Cluster) : fitC c ↔ fitV (clusterView c) := by
  simp [fitC, fitV, clusterView]

/-- fittedness is a property of the view. -/
theorem FittedP_iff_view (h : Heap) (s : Nat) :
    FittedP h s ↔ ∀ v, view h s = some v → ∀ cv ∈ v.clusters, fitV cv := by
  unfold FittedP view Heap.state?
  cases hs : h.states[s]? with
  | none => simp
  | some st =>
    simp only [Option.some.injEq, forall_eq', Option.map_some, List.mem_map,
      forall_exists_index, and_imp, forall_apply_eq_imp_iff₂]
    exact forall₂_congr (fun r _ => fitC_iff_view _)

theorem FittedP_of_view {h h' : Heap} {t : Nat} (e : view h' t = view h t) (hf : FittedP h t) :
    FittedP h' t := by
  rw [FittedP_iff_view] at hf ⊢
  rw [e]; exact hf

theorem stats_half {h : Heap} (ho : OwnedP h) {s : Nat} (hi : InvB h s = true) :
    HalfP (statsPhase h s).2 (statsPhase h s).1 := by
  obtain ⟨st, hs⟩ := exists_of_InvB hi
  obtain ⟨e, F⟩ := statsPhase_fresh ho hs
  obtain ⟨y, hy, hc⟩ := F.cell
  rw [e]
  intro st' hst' r' hr'
  rw [hy] at hst'
  obtain ⟨r, i, _, e'⟩ := hc r' (by rw [Option.some.inj hst']; exact hr')
  rw [e']
  exact ⟨by simp [statsOf], by simp [statsOf]⟩

theorem opt_fitted {h : Heap} (ho : OwnedP h) {s : Nat} (hi : InvB h s = true) (hh : HalfP h s) :
    FittedP (optPhase h s).2 (optPhase h s).1 := by
  obtain ⟨st, hs⟩ := exists_of_InvB hi
  rw [optPhase_eq hs]
  obtain ⟨y, hy, hc⟩ := (copyState'_fresh optOf 2 (ho.wf s st hs).2.1 hs).cell
  intro st' hst' r' hr'
  rw [hy] at hst'
  obtain ⟨r, i, hr, e'⟩ := hc r' (by rw [Option.some.inj hst']; exact hr')
  show fitC ((copyState' optOf 2 h s st).cluster r')
  rw [e']
  obtain ⟨m1, m2⟩ := hh st hs r hr
  exact ⟨m1, m2, by simp [optOf], by simp [optOf]⟩

theorem fitC_deepOf (c : Cluster) (i : Nat) : fitC (deepOf c i) := by
  simp [fitC, deepOf, copyArr]

theorem fitC_setMembers {c : Cluster} (m : List Nat) (hc : fitC c) : fitC (setMembers c m) := by
  unfold setMembers
  split
  · exact hc
  · split
    · exact hc
    · exact hc

theorem assign_fitC {h : Heap} (s : Nat) (lab : Nat × List Nat) {r : Nat} (hc : fitC (h.cluster r)) :
    fitC ((assign h s lab).cluster r) := by
  cases hs : h.states[s]? with
  | none => rw [assign_eq_of_none hs]; exact hc
  | some st =>
    by_cases he : st.labels.map (·.2) = some lab.2
    · rw [assign_eq_of_eq hs he]; exact hc
    · rw [assign_eq_of_ne hs he]
      split
      · rw [clearMembership_eq]
        exact wfold_prop (fun r => some r) (fun _ c => { c with members := [] }) fitC
          (fun _ _ hc => hc) _ (h.setState s _) hc
      · rw [updateMembership_eq]
        exact wfold_prop _ _ fitC (fun _ _ hc => fitC_setMembers _ hc) _ (h.setState s _) hc

/-- the state handed on by the relabelling phase owns deep copies, whose arrays are all present. -/
theorem relabel_fitted_new {h : Heap} (ho : OwnedP h) {s : Nat} (hi : InvB h s = true)
    (newLabels : List Nat) (cost : Nat) :
    FittedP (relabelPhase h s newLabels cost).2 (relabelPhase h s newLabels cost).1 := by
  obtain ⟨st, hs⟩ := exists_of_InvB hi
  rw [relabelPhase_eq hs]
  have co := refreshScoring_CO h st.clusters (h.argsOf st.args).K
  generalize refreshScoring h st.clusters (h.argsOf st.args).K = h0 at *
  have ho0 : OwnedP h0 := co.shape.owned ho
  have hs0 : h0.states[s]? = some st := by rw [co.states]; exact hs
  obtain ⟨y, hy, hc⟩ := (copyState_fresh deepOf 5 (ho0.wf s st hs0).2.1 hs0).cell
  generalize copyState deepOf 5 h0 s st = h3 at *
  generalize h0.states.length = n at *
  have hy4 : h3.fresh.2.states[n]? = some y := hy
  obtain ⟨⟨l, hn5, -⟩, -⟩ := assign_states hy4 (h3.fresh.1, newLabels)
  have hcell : ∀ r' ∈ y.clusters,
      fitC ((assign h3.fresh.2 n (h3.fresh.1, newLabels)).cluster r') := by
    intro r' hr'
    apply assign_fitC
    obtain ⟨r, i, _, e⟩ := hc r' hr'
    show fitC (h3.cluster r')
    rw [e]; exact fitC_deepOf _ _
  generalize assign h3.fresh.2 n (h3.fresh.1, newLabels) = h5 at *
  have hlt := (List.getElem?_eq_some_iff.mp hn5).1
  have e : setCost h5 n cost = h5.setState n { ({ y with labels := some l } : State) with cost := some cost } := by
    unfold setCost; rw [show h5.state? n = some _ from hn5]
  intro st' hst' r' hr'
  simp only at hst' hr' ⊢
  rw [e] at hst' ⊢
  have : (h5.setState n { ({ y with labels := some l } : State) with cost := some cost }).states[n]? =
      some { ({ y with labels := some l } : State) with cost := some cost } := by
    show (h5.states.set n _)[n]? = _
    rw [List.getElem?_set_self hlt]
  rw [this] at hst'
  have hr'' : r' ∈ y.clusters := by rw [← Option.some.inj hst'] at hr'; exact hr'
  exact hcell r' hr''

end FastTicc.Heap

/-
Concavity of `log det` on the positive definite cone (first-order form), over Mathlib's real
matrices: `log det Y − log det X ≤ tr(X⁻¹ (Y − X))`.  This is the one analytic fact the soundness of
the graphical-lasso KKT certificate needs (Props/C02opt.lean).

Proof: whiten `X` with `C = U diag(1/√e)` from the spectral theorem (`Cᴴ X C = 1`); then
`A = Cᴴ Y C` is positive definite with `det A = det Y / det X` and `tr A = tr(X⁻¹ Y)`, and
`log det A = Σ log μ_i ≤ Σ (μ_i − 1) = tr A − n` over the (positive) eigenvalues of `A`.
-/
import Mathlib.Analysis.Matrix.Spectrum
import Mathlib.Analysis.Matrix.PosDef
import Mathlib.Analysis.SpecialFunctions.Log.Basic
import Mathlib.Analysis.SpecialFunctions.Sqrt

namespace FastTicc.LogDet
open Matrix
variable {n : Type*} [Fintype n] [DecidableEq n]

/-- a positive definite real matrix can be whitened: `Cᴴ X C = 1` for some square `C`. -/
theorem exists_whitening {X : Matrix n n ℝ} (hX : X.PosDef) : ∃ C : Matrix n n ℝ, Cᴴ * X * C = 1 := by
  set U : Matrix n n ℝ := (hX.1.eigenvectorUnitary : Matrix n n ℝ) with hU
  set e := hX.1.eigenvalues with he
  have hpos : ∀ i, 0 < e i := fun i => hX.eigenvalues_pos i
  have hdiag : star U * X * U = diagonal e := by
    have := hX.1.conjStarAlgAut_star_eigenvectorUnitary
    rw [Unitary.conjStarAlgAut_star_apply] at this
    simpa using this
  refine ⟨U * diagonal (fun i => 1 / Real.sqrt (e i)), ?_⟩
  rw [conjTranspose_mul, diagonal_conjTranspose]
  have : (diagonal (star fun i => 1 / Real.sqrt (e i)) * Uᴴ) * X * (U * diagonal (fun i => 1 / Real.sqrt (e i)))
      = diagonal (star fun i => 1 / Real.sqrt (e i)) * (star U * X * U) * diagonal (fun i => 1 / Real.sqrt (e i)) := by
    simp only [star_eq_conjTranspose, Matrix.mul_assoc]
  rw [this, hdiag, diagonal_mul_diagonal, diagonal_mul_diagonal, ← diagonal_one]
  congr 1
  funext i
  have hs : Real.sqrt (e i) * Real.sqrt (e i) = e i := Real.mul_self_sqrt (hpos i).le
  have hne : Real.sqrt (e i) ≠ 0 := (Real.sqrt_pos.mpr (hpos i)).ne'
  simp only [Pi.star_apply, star_trivial]
  field_simp
  linarith [hs]

/-- for a positive definite matrix, `log det A ≤ tr A − n` (from `log t ≤ t − 1` on the eigenvalues). -/
theorem log_det_le_trace_sub {A : Matrix n n ℝ} (hA : A.PosDef) :
    Real.log A.det ≤ A.trace - (Fintype.card n : ℝ) := by
  have hd := hA.1.det_eq_prod_eigenvalues
  have ht := hA.1.trace_eq_sum_eigenvalues
  simp only [RCLike.ofReal_real_eq_id, id_eq] at hd ht
  rw [hd, ht, Real.log_prod (fun i _ => (hA.eigenvalues_pos i).ne')]
  have : (Fintype.card n : ℝ) = ∑ _i : n, (1 : ℝ) := by simp
  rw [this, ← Finset.sum_sub_distrib]
  exact Finset.sum_le_sum (fun i _ => Real.log_le_sub_one_of_pos (hA.eigenvalues_pos i))

/-- first-order concavity of `log det` on the positive definite cone:
`log det Y − log det X ≤ tr(X⁻¹ (Y − X))`. -/
theorem log_det_concave {X Y : Matrix n n ℝ} (hX : X.PosDef) (hY : Y.PosDef) :
    Real.log Y.det - Real.log X.det ≤ (X⁻¹ * (Y - X)).trace := by
  obtain ⟨C, hC⟩ := exists_whitening hX
  have hdet1 : C.det * X.det * C.det = 1 := by
    have := congrArg det hC
    simpa [det_mul, det_conjTranspose] using this
  have hCdet : C.det ≠ 0 := by
    intro h; rw [h] at hdet1; simp at hdet1
  have hCunit : IsUnit C.det := isUnit_iff_ne_zero.mpr hCdet
  have hinj : Function.Injective C.mulVec := Matrix.mulVec_injective_iff_isUnit.mpr ((isUnit_iff_isUnit_det C).mpr hCunit)
  have hA : (Cᴴ * Y * C).PosDef := hY.conjTranspose_mul_mul_same hinj
  have hXpos := hX.det_pos
  have hYpos := hY.det_pos
  -- determinant of the whitened Y
  have hdetA : (Cᴴ * Y * C).det = Y.det / X.det := by
    rw [det_mul, det_mul, det_conjTranspose, star_trivial]
    have : C.det * C.det = 1 / X.det := by
      field_simp
      linarith [hdet1]
    field_simp
    nlinarith [this]
  -- X⁻¹ = C Cᴴ
  have hinv : X⁻¹ = C * Cᴴ := by
    apply Matrix.inv_eq_left_inv
    have hCi : C * (Cᴴ * X * C) * C⁻¹ = 1 := by
      rw [hC, Matrix.mul_one, Matrix.mul_nonsing_inv _ hCunit]
    calc C * Cᴴ * X = C * (Cᴴ * X * C) * C⁻¹ := by
          rw [Matrix.mul_assoc C (Cᴴ * X * C), Matrix.mul_assoc (Cᴴ * X) C, Matrix.mul_nonsing_inv _ hCunit,
            Matrix.mul_one]
          simp only [Matrix.mul_assoc]
      _ = 1 := hCi
  have htr : (Cᴴ * Y * C).trace = (X⁻¹ * Y).trace := by
    rw [trace_mul_cycle, hinv, Matrix.mul_assoc]
  have hmain := log_det_le_trace_sub hA
  rw [hdetA, Real.log_div hYpos.ne' hXpos.ne', htr] at hmain
  have hsub : (X⁻¹ * (Y - X)).trace = (X⁻¹ * Y).trace - (Fintype.card n : ℝ) := by
    rw [Matrix.mul_sub, trace_sub, Matrix.nonsing_inv_mul _ (isUnit_iff_ne_zero.mpr hXpos.ne'), trace_one]
  rw [hsub]
  exact hmain

end FastTicc.LogDet

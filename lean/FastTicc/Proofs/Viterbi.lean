/- Helper lemmas for property C01 (Viterbi optimality). -/
import FastTicc.Model.Viterbi
import Mathlib.Algebra.Order.Group.Defs
import Mathlib.Tactic.Abel

namespace FastTicc.Viterbi

set_option linter.unusedSectionVars false

/-! ### lemmas that hold for the bare operations used by the model -/

section General
variable {α : Type} [Add α] [Sub α] [LT α] [DecidableLT α] [Zero α]

theorem argminUpTo_le (f : Nat → α) : ∀ n, argminUpTo f n ≤ n
  | 0 => by simp [argminUpTo]
  | n + 1 => by
    simp only [argminUpTo]
    split
    · exact Nat.le_refl _
    · exact Nat.le_succ_of_le (argminUpTo_le f n)

theorem argmin_lt (f : Nat → α) {K : Nat} (hK : 0 < K) : argmin f K < K := by
  unfold argmin
  have := argminUpTo_le f (K - 1)
  omega

theorem argminUpTo_congr {f g : Nat → α} :
    ∀ n, (∀ c ≤ n, f c = g c) → argminUpTo f n = argminUpTo g n
  | 0, _ => rfl
  | n + 1, h => by
    have ih := argminUpTo_congr n (fun c hc => h c (Nat.le_succ_of_le hc))
    have ha : f (argminUpTo g n) = g (argminUpTo g n) :=
      h _ (Nat.le_succ_of_le (argminUpTo_le g n))
    simp only [argminUpTo]
    rw [ih, ha, h (n + 1) (Nat.le_refl _)]

theorem argmin_congr {f g : Nat → α} {K : Nat} (hK : 0 < K) (h : ∀ c < K, f c = g c) :
    argmin f K = argmin g K :=
  argminUpTo_congr (K - 1) (fun c hc => h c (by omega))

theorem totalVals_congr {f g : Nat → α} {K : Nat} (h : ∀ c < K, f c = g c)
    (r : Nat → α) (b : α) : ∀ c < K, totalVals f r b c = totalVals g r b c := by
  intro c hc
  simp only [totalVals, h c hc]

theorem stepFuture_congr {f g : Nat → α} {K : Nat} (hK : 0 < K) (h : ∀ c < K, f c = g c)
    (r : Nat → α) (b : α) (c : Nat) (hc : c < K) :
    stepFuture K f r b c = stepFuture K g r b c := by
  have htot := totalVals_congr h r b
  simp only [stepFuture]
  rw [argmin_congr hK htot, htot c hc, htot _ (argmin_lt _ hK)]

theorem stepPath_congr {f g : Nat → α} {K : Nat} (hK : 0 < K) (h : ∀ c < K, f c = g c)
    (r : Nat → α) (b : α) (c : Nat) (hc : c < K) :
    stepPath K f r b c = stepPath K g r b c := by
  have htot := totalVals_congr h r b
  simp only [stepPath]
  rw [argmin_congr hK htot, htot c hc, htot _ (argmin_lt _ hK)]

theorem stepPath_lt (K : Nat) (hK : 0 < K) (fut' row' : Nat → α) (b : α) (c : Nat)
    (hc : c < K) : stepPath K fut' row' b c < K := by
  simp only [stepPath]
  split
  · exact argmin_lt _ hK
  · exact hc

theorem getD_map_range {β : Type} (f : Nat → β) (d : β) {K c : Nat} (hc : c < K) :
    ((List.range K).map f).getD c d = f c := by
  simp [List.getD_eq_getElem?_getD, hc]

theorem getD_replicate_self {β : Type} (d : β) (K c : Nat) :
    (List.replicate K d).getD c d = d := by
  simp only [List.getD_eq_getElem?_getD, List.getElem?_replicate]
  split <;> rfl

/-- the list-backed backward pass agrees with the closure-backed one on `[0, K)`, both for
the future-cost row and for every label sequence read off the path matrix. -/
theorem backFast_spec (K : Nat) (hK : 0 < K) :
    ∀ pts : List ((Nat → α) × α),
      (∀ c < K, (backFast K pts).1.getD c 0 = (back K pts).1 c) ∧
      (∀ l < K, follow ((backFast K pts).2.map (fun row c => row.getD c 0)) l
                  = follow (back K pts).2 l)
  | [] => ⟨fun c _ => getD_replicate_self 0 K c, fun _ _ => rfl⟩
  | [_] => ⟨fun c _ => getD_replicate_self 0 K c, fun _ _ => rfl⟩
  | p :: q :: rest => by
    obtain ⟨ih1, ih2⟩ := backFast_spec K hK (q :: rest)
    constructor
    · intro c hc
      simp only [backFast, back]
      rw [getD_map_range _ _ hc]
      exact stepFuture_congr hK ih1 q.1 p.2 c hc
    · intro l hl
      have hrow : ((List.range K).map
            (stepPath K (fun c => (backFast K (q :: rest)).1.getD c 0) q.1 p.2)).getD l 0
          = stepPath K (back K (q :: rest)).1 q.1 p.2 l := by
        rw [getD_map_range _ _ hl]
        exact stepPath_congr hK ih1 q.1 p.2 l hl
      simp only [backFast, back, List.map_cons, follow]
      rw [hrow, ih2 _ (stepPath_lt K hK _ _ _ l hl)]

/-- the executable refinement returns exactly what the specification-level model returns
(`0 < K` is needed: for `K = 0` the list rows are empty and read back as `0`). -/
theorem viterbiFast_eq_viterbi (K : Nat) (hK : 0 < K) (pts : List ((Nat → α) × α)) :
    viterbiFast K pts = viterbi K pts := by
  cases pts with
  | nil => rfl
  | cons p rest =>
    obtain ⟨h1, h2⟩ := backFast_spec K hK (p :: rest)
    have hstart : argmin (fun c => (backFast K (p :: rest)).1.getD c 0 + p.1 c) K
        = argmin (fun c => (back K (p :: rest)).1 c + p.1 c) K :=
      argmin_congr hK (fun c hc => by simp only [h1 c hc])
    have hlt := argmin_lt (fun c => (back K (p :: rest)).1 c + p.1 c) hK
    simp only [viterbiFast, viterbi]
    rw [hstart, h2 _ hlt, h1 _ hlt]

end General

variable {α : Type} [AddCommGroup α] [LinearOrder α] [IsOrderedAddMonoid α]

/-! ### `argmin` -/

theorem argminUpTo_min (f : Nat → α) : ∀ n c, c ≤ n → f (argminUpTo f n) ≤ f c
  | 0, c, h => by
    obtain rfl : c = 0 := Nat.le_zero.mp h
    simp [argminUpTo]
  | n + 1, c, h => by
    simp only [argminUpTo]
    rcases Nat.lt_or_ge c (n + 1) with hlt | hge
    · have ih := argminUpTo_min f n c (Nat.le_of_lt_succ hlt)
      split
      · next hlt' => exact le_trans (le_of_lt hlt') ih
      · exact ih
    · obtain rfl : c = n + 1 := le_antisymm h hge
      split
      · exact le_rfl
      · next hn => exact not_lt.mp hn

theorem argmin_min (f : Nat → α) {K : Nat} (c : Nat) (hc : c < K) :
    f (argmin f K) ≤ f c :=
  argminUpTo_min f (K - 1) c (by omega)

/-! ### one backward step -/

theorem totalVals_sub (fut' row' : Nat → α) (b : α) (c : Nat) :
    totalVals fut' row' b c - b = fut' c + row' c := by
  simp [totalVals]

/-- The new future cost is a lower bound for every continuation `c'`.
No sign condition on `b` is needed for this direction. -/
theorem stepFuture_le (K : Nat) (fut' row' : Nat → α) (b : α) (c c' : Nat) (hc' : c' < K) :
    stepFuture K fut' row' b c ≤ fut' c' + row' c' + (if c = c' then 0 else b) := by
  have hmin := argmin_min (totalVals fut' row' b) c' hc'
  simp only [stepFuture]
  rw [totalVals_sub]
  by_cases hcc : c = c'
  · subst hcc
    simp only [if_true, add_zero]
    split
    · next h => exact le_of_lt h
    · exact le_rfl
  · simp only [if_neg hcc]
    have htot : totalVals fut' row' b c' = fut' c' + row' c' + b := rfl
    rw [← htot]
    split
    · exact hmin
    · next h => exact le_trans (not_lt.mp h) hmin

/-- The new future cost is attained by the continuation recorded in the path matrix.
This direction needs `0 ≤ b`. -/
theorem stepFuture_eq (K : Nat) (fut' row' : Nat → α) (b : α) (hb : 0 ≤ b) (c : Nat) :
    stepFuture K fut' row' b c
      = fut' (stepPath K fut' row' b c) + row' (stepPath K fut' row' b c)
        + (if c = stepPath K fut' row' b c then 0 else b) := by
  simp only [stepFuture, stepPath, totalVals_sub]
  by_cases h : totalVals fut' row' b (argmin (totalVals fut' row' b) K) < fut' c + row' c
  · simp only [if_pos h]
    have hne : c ≠ argmin (totalVals fut' row' b) K := by
      intro heq
      rw [← heq] at h
      have h' : fut' c + row' c + b < fut' c + row' c := h
      exact absurd (le_add_of_nonneg_right hb) (not_le.mpr h')
    rw [if_neg hne]
    rfl
  · simp only [if_neg h, if_true, add_zero]

/-! ### specification unfolding -/

theorem totalCost_cons_cons (p q : (Nat → α) × α) (rest : List ((Nat → α) × α))
    (l l' : Nat) (ls : List Nat) :
    totalCost (p :: q :: rest) (l :: l' :: ls)
      = p.1 l + (if l = l' then 0 else p.2) + totalCost (q :: rest) (l' :: ls) := by
  simp only [totalCost, assignCost, switchCost]
  abel

theorem totalCost_singleton (p : (Nat → α) × α) (l : Nat) :
    totalCost [p] [l] = p.1 l := by
  simp [totalCost, assignCost, switchCost]

/-! ### shape of the result -/

theorem follow_length : ∀ (ps : List (Nat → Nat)) (c : Nat), (follow ps c).length = ps.length
  | [], _ => rfl
  | p :: ps, c => by simp [follow, follow_length ps (p c)]

theorem back_snd_length (K : Nat) :
    ∀ pts : List ((Nat → α) × α), (back K pts).2.length = pts.length - 1
  | [] => rfl
  | [_] => rfl
  | p :: q :: rest => by simp [back, back_snd_length K (q :: rest)]

theorem follow_back_lt (K : Nat) (hK : 0 < K) :
    ∀ (pts : List ((Nat → α) × α)) (l : Nat), l < K → ∀ x ∈ follow (back K pts).2 l, x < K
  | [], _, _ => by simp [back, follow]
  | [_], _, _ => by simp [back, follow]
  | p :: q :: rest, l, hl => by
    simp only [back, follow, List.mem_cons]
    rintro x (rfl | hx)
    · exact stepPath_lt K hK _ _ _ l hl
    · exact follow_back_lt K hK (q :: rest) _ (stepPath_lt K hK _ _ _ l hl) x hx

/-! ### the suffix invariant -/

/-- `future[i][l] + cost[i][l]` is the total cost of the labelling obtained by starting
at `l` and following the path matrix (needs non-negative switching costs). -/
theorem back_cost_eq (K : Nat) :
    ∀ (p : (Nat → α) × α) (rest : List ((Nat → α) × α)),
      (∀ x ∈ p :: rest, 0 ≤ x.2) → ∀ l : Nat,
      (back K (p :: rest)).1 l + p.1 l
        = totalCost (p :: rest) (l :: follow (back K (p :: rest)).2 l)
  | p, [], _, l => by simp [back, follow, totalCost, assignCost, switchCost]
  | p, q :: rest, hb, l => by
    have ih := back_cost_eq K q rest (fun x hx => hb x (List.mem_cons_of_mem _ hx))
      (stepPath K (back K (q :: rest)).1 q.1 p.2 l)
    simp only [back, follow]
    rw [totalCost_cons_cons, ← ih,
      stepFuture_eq K _ _ _ (hb p List.mem_cons_self) l]
    abel

/-- `future[i][l] + cost[i][l]` is a lower bound for the total cost of every labelling of
the suffix that starts with `l`.  No sign condition on the switching costs is needed. -/
theorem back_cost_le (K : Nat) :
    ∀ (p : (Nat → α) × α) (rest : List ((Nat → α) × α)) (l : Nat) (ls : List Nat),
      ls.length = rest.length → (∀ x ∈ ls, x < K) →
      (back K (p :: rest)).1 l + p.1 l ≤ totalCost (p :: rest) (l :: ls)
  | p, [], l, [], _, _ => by simp [back, totalCost, assignCost, switchCost]
  | p, [], l, _ :: _, hlen, _ => by simp at hlen
  | p, _ :: _, l, [], hlen, _ => by simp at hlen
  | p, q :: rest, l, l' :: ls, hlen, hlt => by
    have ih := back_cost_le K q rest l' ls (by simpa using hlen)
      (fun x hx => hlt x (List.mem_cons_of_mem _ hx))
    have hs := stepFuture_le K (back K (q :: rest)).1 q.1 p.2 l l'
      (hlt l' List.mem_cons_self)
    simp only [back]
    rw [totalCost_cons_cons]
    calc stepFuture K (back K (q :: rest)).1 q.1 p.2 l + p.1 l
        ≤ ((back K (q :: rest)).1 l' + q.1 l' + (if l = l' then 0 else p.2)) + p.1 l :=
          add_le_add hs le_rfl
      _ ≤ (totalCost (q :: rest) (l' :: ls) + (if l = l' then 0 else p.2)) + p.1 l :=
          add_le_add (add_le_add ih le_rfl) le_rfl
      _ = p.1 l + (if l = l' then 0 else p.2) + totalCost (q :: rest) (l' :: ls) := by abel

/-! ### consequences for `viterbi` -/

/-- The reported cost never exceeds the cost of any candidate labelling — whatever the
sign of the switching costs. -/
theorem viterbi_cost_lower_bound (K : Nat) (pts : List ((Nat → α) × α))
    (q : List Nat) (hlen : q.length = pts.length) (hlt : ∀ l ∈ q, l < K) :
    (viterbi K pts).2 ≤ totalCost pts q := by
  cases pts with
  | nil =>
    obtain rfl : q = [] := List.length_eq_zero_iff.mp hlen
    simp [viterbi, totalCost, assignCost, switchCost]
  | cons p rest =>
    cases q with
    | nil => simp at hlen
    | cons l ls =>
      have hl : l < K := hlt l List.mem_cons_self
      simp only [viterbi]
      exact le_trans
        (argmin_min (fun c => (back K (p :: rest)).1 c + p.1 c) l hl)
        (back_cost_le K p rest l ls (by simpa using hlen)
          (fun x hx => hlt x (List.mem_cons_of_mem _ hx)))

theorem withScalarBeta_eq (rows : List (Nat → α)) (b : α) :
    withScalarBeta rows b = withVectorBeta rows (List.replicate rows.length b) := by
  unfold withScalarBeta withVectorBeta
  induction rows with
  | nil => rfl
  | cons r rs ih => simp [List.replicate_succ, ih]

end FastTicc.Viterbi

/- Helper lemmas for the whole-result theorems (`Props/Final.lean`). -/
import FastTicc.Model.Final
import FastTicc.Proofs.Run
import FastTicc.Proofs.Result
import FastTicc.Props.C06
import Mathlib.Algebra.Order.Field.Basic
import Mathlib.Tactic.Ring

namespace FastTicc.Final
open FastTicc FastTicc.Run FastTicc.Viterbi

set_option linter.unusedSectionVars false

variable {α : Type} [Field α] [LinearOrder α] [IsStrictOrderedRing α]

/-- the state a successful run ends with is the relabelling of a freshly fitted state. -/
theorem final_is_relab (inp : Input α) (orc : Oracles α) {limit : Nat} (hl : 1 ≤ limit)
    {init : List Nat} {r : MainLoop.Outcome (St α)} (h : run inp orc limit init = .ok r) :
    ∃ s1 : St α, r.final = relab inp orc (Run.fit inp s1) := by
  have S := run_spec' inp orc h
  have h1 := S.lo' hl
  obtain ⟨_, s1, _, _, e2⟩ := history_entry inp orc h (r.rounds - 1) (by omega)
  rw [S.last (by omega)] at e2
  exact ⟨s1, Option.some.inj e2⟩

/-- the state whose cost table the returned labelling was scored with, recovered from the final
state: same means, the round counter before the relabel incremented it. -/
def scoring (s : St α) : St α := { s with round := s.round - 1 }

theorem costPoints_scoring (inp : Input α) (orc : Oracles α) (s : St α) :
    costPoints inp orc (scoring (relab inp orc s)) = costPoints inp orc s := by
  simp only [costPoints, scoring, relab, Nat.add_sub_cancel]
  rfl

/-! ### sums over a table built on `List.range` -/

theorem assignCost_map {ι : Type} (f : ι → (Nat → α) × α) :
    ∀ (l : List ι) (ls : List Nat),
      assignCost (l.map f) ls = (List.zipWith (fun x c => (f x).1 c) l ls).sum := by
  intro l
  induction l with
  | nil => intro ls; simp [assignCost]
  | cons x xs ih =>
    intro ls
    cases ls with
    | nil => simp [assignCost]
    | cons c cs => simp [assignCost, ih]

theorem zipWith_range_getD {β : Type} (g : Nat → Nat → β) (ls : List Nat) :
    List.zipWith g (List.range ls.length) ls = (List.range ls.length).map (fun p => g p (ls.getD p 0)) := by
  apply List.ext_getElem
  · simp
  · intro i h1 h2
    simp only [List.length_zipWith, List.length_range, Nat.min_self] at h1
    simp [List.getD_eq_getElem?_getD, List.getElem?_eq_getElem h1]

/-- the switching cost of a labelling, written as an explicit sum over consecutive pairs:
pair `(i, i+1)` costs `betas[i]` when its labels differ. -/
def switchSum (betas : Nat → α) (ls : List Nat) : α :=
  ((List.range (ls.length - 1)).map
    (fun i => if ls.getD i 0 = ls.getD (i + 1) 0 then 0 else betas i)).sum

theorem switchCost_map_range_aux (rowf : Nat → (Nat → α)) (betas : Nat → α) :
    ∀ (ls : List Nat) (off : Nat),
      switchCost ((List.range' off ls.length).map (fun p => (rowf p, betas p))) ls =
        ((List.range (ls.length - 1)).map
          (fun i => if ls.getD i 0 = ls.getD (i + 1) 0 then 0 else betas (off + i))).sum := by
  intro ls
  induction ls with
  | nil => intro off; simp [switchCost]
  | cons l lt ih =>
    intro off
    cases lt with
    | nil => simp [switchCost, List.range'_succ]
    | cons l' lt' =>
      have := ih (off + 1)
      simp only [List.length_cons, List.range'_succ, List.map_cons, switchCost] at this ⊢
      rw [this]
      simp only [Nat.add_sub_cancel]
      rw [List.range_succ_eq_map, List.map_cons, List.sum_cons, List.map_map]
      simp only [List.getD_cons_zero, List.getD_cons_succ, Nat.add_zero, Function.comp_def,
        Nat.succ_eq_add_one]
      congr 2
      apply List.map_congr_left
      intro i _
      have : off + 1 + i = off + (i + 1) := by omega
      rw [this]

theorem switchCost_map_range (rowf : Nat → (Nat → α)) (betas : Nat → α) (ls : List Nat) :
    switchCost ((List.range ls.length).map (fun p => (rowf p, betas p))) ls = switchSum betas ls := by
  have := switchCost_map_range_aux rowf betas ls 0
  rw [← List.range_eq_range'] at this
  rw [this]
  unfold switchSum
  simp

/-! ### likelihood accounting on a valid labelling -/

theorem allLL_perm_valid (K : Nat) (ls : List Nat) (ll : List α) (hv : ∀ l ∈ ls, l < K)
    (hlen : ls.length = ll.length) :
    (Result.allLL K (ls.map Int.ofNat) ll).Perm ll := by
  have hp := Result.all_ll_perm K (ls.map Int.ofNat) ll
  have hfilter : ((ls.map Int.ofNat).zip ll).filter (fun q => Result.labelled K q.1)
      = (ls.map Int.ofNat).zip ll := by
    apply List.filter_eq_self.mpr
    intro q hq
    have hq1 := (List.of_mem_zip hq).1
    obtain ⟨l, hlm, hl⟩ := List.mem_map.mp hq1
    rw [← hl]
    simp [Result.labelled, hv l hlm]
  rw [hfilter] at hp
  have : ((ls.map Int.ofNat).zip ll).map (·.2) = ll := by
    apply List.map_snd_zip
    simp [hlen]
  rw [this] at hp
  exact hp

theorem pointLL_eq_neg_cost (inp : Input α) (orc : Oracles α) (s : St α) (p : Nat) (hp : p < inp.T)
    (hlab : s.labels.getD p 0 < inp.K) :
    pointLL inp orc s p =
      - ((costPoints inp orc (scoring s)).getD p (fun _ => 0, 0)).1 (s.labels.getD p 0) := by
  simp only [costPoints, List.getD_eq_getElem?_getD, List.getElem?_map, List.getElem?_range hp,
    Option.map_some, Option.getD_some, rowOfList]
  rw [← List.getD_eq_getElem?_getD] at *
  rw [List.getElem?_range hlab]
  simp only [Option.map_some, Option.getD_some, neg_neg]
  rfl

end FastTicc.Final

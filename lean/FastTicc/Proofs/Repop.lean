/- Helper lemmas for property C08 (repopulation). -/
import FastTicc.Model.Repop
import Mathlib.Order.Defs.LinearOrder

namespace FastTicc.Repop
open FastTicc.Constants

/-! ### members / size -/

theorem mem_members {labels : List Nat} {k i : Nat} :
    i ∈ members labels k ↔ labels[i]? = some k := by
  simp only [members, List.mem_filter, List.mem_range, beq_iff_eq]
  constructor
  · exact fun h => h.2
  · intro h
    exact ⟨(List.getElem?_eq_some_iff.mp h).1, h⟩

theorem members_nodup (labels : List Nat) (k : Nat) : (members labels k).Nodup :=
  List.Pairwise.filter _ List.nodup_range

theorem size_eq_length_members (labels : List Nat) (k : Nat) :
    size labels k = (members labels k).length := by
  induction labels with
  | nil => simp [size, members]
  | cons a l ih =>
    simp only [size, members] at ih ⊢
    rw [List.length_cons, List.range_succ_eq_map, List.filter_cons, List.filter_map,
      List.count_cons, ih]
    by_cases h : a = k <;> simp [h, Function.comp_def]

/-! ### setLabels -/

theorem setLabels_cons (labels : List Nat) (p : Nat) (ps : List Nat) (k : Nat) :
    setLabels labels (p :: ps) k = setLabels (labels.set p k) ps k := rfl

theorem length_setLabels (labels pts : List Nat) (k : Nat) :
    (setLabels labels pts k).length = labels.length := by
  induction pts generalizing labels with
  | nil => rfl
  | cons p ps ih => rw [setLabels_cons, ih, List.length_set]

theorem getElem?_setLabels (labels pts : List Nat) (k i : Nat) :
    (setLabels labels pts k)[i]? =
      if i ∈ pts ∧ i < labels.length then some k else labels[i]? := by
  induction pts generalizing labels with
  | nil => simp [setLabels]
  | cons p ps ih =>
    rw [setLabels_cons, ih, List.length_set, List.getElem?_set]
    grind

theorem count_setLabels {labels pts : List Nat} {d e : Nat} (hde : d ≠ e) (hn : pts.Nodup)
    (hd : ∀ p ∈ pts, labels[p]? = some d) :
    (setLabels labels pts e).count d + pts.length = labels.count d ∧
    (setLabels labels pts e).count e = labels.count e + pts.length ∧
    ∀ k, k ≠ d → k ≠ e → (setLabels labels pts e).count k = labels.count k := by
  induction pts generalizing labels with
  | nil => simp [setLabels]
  | cons p ps ih =>
    rw [List.nodup_cons] at hn
    have hp := hd p (List.mem_cons_self)
    obtain ⟨hlt, hpe⟩ := List.getElem?_eq_some_iff.mp hp
    have hd' : ∀ q ∈ ps, (labels.set p e)[q]? = some d := by
      intro q hq
      have : p ≠ q := fun h => hn.1 (h ▸ hq)
      rw [List.getElem?_set_ne this]
      exact hd q (List.mem_cons_of_mem _ hq)
    obtain ⟨i1, i2, i3⟩ := ih hn.2 hd'
    have hpos : 0 < labels.count d := List.count_pos_iff.mpr (hpe ▸ List.getElem_mem hlt)
    rw [setLabels_cons]
    refine ⟨?_, ?_, ?_⟩
    · rw [List.count_set hlt] at i1
      simp [hpe, hde.symm] at i1 ⊢
      omega
    · rw [List.count_set hlt] at i2
      simp [hpe, hde] at i2 ⊢
      omega
    · intro k hk1 hk2
      rw [i3 k hk1 hk2, List.count_set hlt]
      simp [hpe, hk1.symm, hk2.symm]

theorem movePoints_spec {labels : List Nat} {d e m : Nat} {c : List Nat} (hde : d ≠ e)
    (hlen : c.length = m) (hnd : c.Nodup) (hlt : ∀ x ∈ c, x < size labels d) :
    (movePoints labels d e c).length = labels.length ∧
    size (movePoints labels d e c) d + m = size labels d ∧
    size (movePoints labels d e c) e = size labels e + m ∧
    (∀ k, k ≠ d → k ≠ e → size (movePoints labels d e c) k = size labels k) ∧
    ∀ i : Nat, (movePoints labels d e c)[i]? ≠ labels[i]? →
      labels[i]? = some d ∧ (movePoints labels d e c)[i]? = some e := by
  simp only [size_eq_length_members labels d] at hlt
  have hpd : ∀ p ∈ c.map (fun i => (members labels d).getD i 0), labels[p]? = some d := by
    intro p hp
    obtain ⟨i, hi, rfl⟩ := List.mem_map.mp hp
    have := hlt i hi
    rw [← mem_members, List.getD_eq_getElem?_getD, List.getElem?_eq_getElem this]
    exact List.getElem_mem _
  have hpn : (c.map (fun i => (members labels d).getD i 0)).Nodup := by
    rw [List.Nodup, List.pairwise_map]
    refine List.Pairwise.imp_of_mem ?_ hnd
    intro a b ha hb hab h
    exact hab ((List.getD_inj (hlt a ha) (hlt b hb) (members_nodup labels d)).mp h)
  obtain ⟨c1, c2, c3⟩ := count_setLabels hde hpn hpd
  rw [List.length_map, hlen] at c1 c2
  refine ⟨length_setLabels _ _ _, c1, c2, c3, ?_⟩
  intro i hi
  unfold movePoints at hi ⊢
  rw [getElem?_setLabels] at hi ⊢
  split at hi
  · rename_i h; rw [if_pos h]; exact ⟨hpd i h.1, rfl⟩
  · exact absurd rfl hi

/-! ### findDonor -/

theorem findDonor_nil (sz : Nat → Nat) (m : Nat) : findDonor sz m [] = none := by
  rw [findDonor]

theorem findDonor_cons_of_le (sz : Nat → Nat) (m d : Nat) (rest : List Nat) (h : 2 * m ≤ sz d) :
    findDonor sz m (d :: rest) =
      if sz d < 3 * m then some (d, rest) else some (d, d :: rest) := by
  rw [findDonor, if_pos (show donorFactorFind * m ≤ sz d from h)]
  rfl

/-! ### the recipient loop -/

/-- the donors in ranking order, each repeated to capacity. -/
def donorSeq (m : Nat) (rem labels : List Nat) : List Nat :=
  rem.flatMap (fun d => List.replicate (size labels d / m - 1) d)

theorem donorSeq_cons (m d : Nat) (rest labels : List Nat) :
    donorSeq m (d :: rest) labels =
      List.replicate (size labels d / m - 1) d ++ donorSeq m rest labels := by
  simp [donorSeq]

theorem donorSeq_congr {m : Nat} {rem l1 l2 : List Nat}
    (h : ∀ r ∈ rem, size l1 r = size l2 r) : donorSeq m rem l1 = donorSeq m rem l2 := by
  induction rem with
  | nil => rfl
  | cons r rs ih =>
    simp only [donorSeq, List.flatMap_cons] at ih ⊢
    rw [h r List.mem_cons_self, ih (fun x hx => h x (List.mem_cons_of_mem _ hx))]

theorem length_donorSeq (m : Nat) (rem labels : List Nat) :
    (donorSeq m rem labels).length = (rem.map (fun d => size labels d / m - 1)).sum := by
  simp [donorSeq]

/-- loop invariant: recipients distinct, candidates distinct, no recipient is a candidate,
every candidate still holds at least `2m` points. -/
structure Inv (m : Nat) (es rem labels : List Nat) : Prop where
  es_nodup : es.Nodup
  rem_nodup : rem.Nodup
  disj : ∀ e ∈ es, e ∉ rem
  big : ∀ d ∈ rem, 2 * m ≤ size labels d

theorem move_of_inv {m : Nat} {pick : Nat → Nat → List Nat} {e d : Nat} {es rest labels : List Nat}
    (hp : ValidPick m pick) (hI : Inv m (e :: es) (d :: rest) labels) (s : Nat) :
    (movePoints labels d e (pick s (size labels d))).length = labels.length ∧
    size (movePoints labels d e (pick s (size labels d))) d + m = size labels d ∧
    size (movePoints labels d e (pick s (size labels d))) e = size labels e + m ∧
    (∀ k, k ≠ d → k ≠ e →
      size (movePoints labels d e (pick s (size labels d))) k = size labels k) ∧
    ∀ i : Nat, (movePoints labels d e (pick s (size labels d)))[i]? ≠ labels[i]? →
      labels[i]? = some d ∧ (movePoints labels d e (pick s (size labels d)))[i]? = some e := by
  have hde : d ≠ e := fun h => hI.disj e List.mem_cons_self (h ▸ List.mem_cons_self)
  have hbig := hI.big d List.mem_cons_self
  obtain ⟨h1, h2, h3⟩ := hp s (size labels d) (by omega)
  exact movePoints_spec hde h1 h2 h3

theorem refill_step {m : Nat} {pick : Nat → Nat → List Nat} {e d : Nat} {es rest labels : List Nat}
    (hm : 1 ≤ m) (hp : ValidPick m pick) (hI : Inv m (e :: es) (d :: rest) labels) (s : Nat) :
    ∃ rem', findDonor (size labels) m (d :: rest) = some (d, rem') ∧
      (rem' = rest ∨ rem' = d :: rest) ∧
      Inv m es rem' (movePoints labels d e (pick s (size labels d))) ∧
      donorSeq m (d :: rest) labels =
        d :: donorSeq m rem' (movePoints labels d e (pick s (size labels d))) := by
  obtain ⟨_, M2, _, M4, _⟩ := move_of_inv hp hI s
  have hbig := hI.big d List.mem_cons_self
  have hnd := List.nodup_cons.mp hI.rem_nodup
  have hes := List.nodup_cons.mp hI.es_nodup
  have hde : d ≠ e := fun h => hI.disj e List.mem_cons_self (h ▸ List.mem_cons_self)
  have hrest : ∀ r ∈ rest,
      size (movePoints labels d e (pick s (size labels d))) r = size labels r := by
    intro r hr
    refine M4 r (fun h => hnd.1 (h ▸ hr)) (fun h => ?_)
    exact hI.disj e List.mem_cons_self (h ▸ List.mem_cons_of_mem _ hr)
  rw [findDonor_cons_of_le _ _ _ _ hbig]
  by_cases hlt : size labels d < 3 * m
  · refine ⟨rest, by rw [if_pos hlt], Or.inl rfl, ⟨hes.2, hnd.2, ?_, ?_⟩, ?_⟩
    · intro x hx hxr
      exact hI.disj x (List.mem_cons_of_mem _ hx) (List.mem_cons_of_mem _ hxr)
    · intro r hr
      rw [hrest r hr]; exact hI.big r (List.mem_cons_of_mem _ hr)
    · have h2 : size labels d / m = 2 := Nat.div_eq_of_lt_le (by omega) (by omega)
      rw [donorSeq_congr hrest, donorSeq_cons, h2]
      rfl
  · refine ⟨d :: rest, by rw [if_neg hlt], Or.inr rfl, ⟨hes.2, hI.rem_nodup, ?_, ?_⟩, ?_⟩
    · intro x hx
      exact hI.disj x (List.mem_cons_of_mem _ hx)
    · intro r hr
      rcases List.mem_cons.mp hr with rfl | hr
      · omega
      · rw [hrest r hr]; exact hI.big r (List.mem_cons_of_mem _ hr)
    · have h3 : 3 ≤ size labels d / m := (Nat.le_div_iff_mul_le (by omega)).mpr (by omega)
      have h4 : size (movePoints labels d e (pick s (size labels d))) d / m =
          size labels d / m - 1 := by
        have : size (movePoints labels d e (pick s (size labels d))) d = size labels d - m * 1 := by
          omega
        rw [this, Nat.sub_mul_div]
      rw [donorSeq_cons, donorSeq_cons, h4, donorSeq_congr hrest]
      have : size labels d / m - 1 = (size labels d / m - 1 - 1) + 1 := by omega
      rw [this, List.replicate_succ]
      simp

theorem refillDonors_eq {m : Nat} {pick : Nat → Nat → List Nat} (hm : 1 ≤ m)
    (hp : ValidPick m pick) (es : List Nat) :
    ∀ (rem labels : List Nat) (s : Nat), Inv m es rem labels →
      refillDonors m pick es rem labels s = (donorSeq m rem labels).take es.length := by
  induction es with
  | nil => intros; simp [refillDonors]
  | cons e es ih =>
    intro rem labels s hI
    cases rem with
    | nil => simp [refillDonors, findDonor_nil, donorSeq]
    | cons d rest =>
      obtain ⟨rem', hf, _, hI', hseq⟩ := refill_step hm hp hI s
      simp only [refillDonors, hf]
      rw [ih _ _ _ hI', hseq, List.length_cons, List.take_succ_cons]

theorem refill_none_iff {m : Nat} {pick : Nat → Nat → List Nat} (hm : 1 ≤ m)
    (hp : ValidPick m pick) (es : List Nat) :
    ∀ (rem labels : List Nat) (s : Nat), Inv m es rem labels →
      (refill m pick es rem labels s = none ↔ (donorSeq m rem labels).length < es.length) := by
  induction es with
  | nil => intros; simp [refill]
  | cons e es ih =>
    intro rem labels s hI
    cases rem with
    | nil => simp [refill, findDonor_nil, donorSeq]
    | cons d rest =>
      obtain ⟨rem', hf, _, hI', hseq⟩ := refill_step hm hp hI s
      simp only [refill, hf]
      rw [ih _ _ _ hI', hseq, List.length_cons, List.length_cons]
      omega

/-- what a successful run of the recipient loop guarantees. -/
structure RefillSpec (m : Nat) (es rem L L' : List Nat) : Prop where
  len : L'.length = L.length
  moved : ∀ i : Nat, L'[i]? ≠ L[i]? →
    ∃ a b, L[i]? = some a ∧ L'[i]? = some b ∧ a ∈ rem ∧ b ∈ es ∧ size L' a < size L a
  recip : ∀ e ∈ es, size L' e = size L e + m
  donor : ∀ r ∈ rem, m ≤ size L' r ∧ ∃ t, size L r = size L' r + t * m
  other : ∀ k, k ∉ es → k ∉ rem → size L' k = size L k

theorem refill_spec {m : Nat} {pick : Nat → Nat → List Nat} (hm : 1 ≤ m)
    (hp : ValidPick m pick) (es : List Nat) :
    ∀ (rem L : List Nat) (s : Nat) (L' : List Nat), Inv m es rem L →
      refill m pick es rem L s = some L' → RefillSpec m es rem L L' := by
  induction es with
  | nil =>
    intro rem L s L' hI h
    simp only [refill, Option.some.injEq] at h
    subst h
    refine ⟨rfl, fun i hi => absurd rfl hi, fun e he => by simp at he, fun r hr => ?_, fun _ _ _ => rfl⟩
    have := hI.big r hr
    exact ⟨by omega, 0, by simp⟩
  | cons e es ih =>
    intro rem L s L' hI h
    cases rem with
    | nil => simp [refill, findDonor_nil] at h
    | cons d rest =>
      obtain ⟨rem', hf, hrem', hI', -⟩ := refill_step hm hp hI s
      obtain ⟨M1, M2, M3, M4, M5⟩ := move_of_inv hp hI s
      simp only [refill, hf] at h
      obtain ⟨A1, A2, A3, A4, A5⟩ := ih _ _ _ _ hI' h
      generalize movePoints L d e (pick s (size L d)) = L1 at *
      have hnd := List.nodup_cons.mp hI.rem_nodup
      have hes := List.nodup_cons.mp hI.es_nodup
      have hde : d ≠ e := fun h => hI.disj e List.mem_cons_self (h ▸ List.mem_cons_self)
      have hsub : ∀ x ∈ rem', x ∈ d :: rest := by
        intro x hx
        rcases hrem' with rfl | rfl
        · exact List.mem_cons_of_mem _ hx
        · exact hx
      have hsup : ∀ x ∈ rest, x ∈ rem' := by
        intro x hx
        rcases hrem' with rfl | rfl
        · exact hx
        · exact List.mem_cons_of_mem _ hx
      have hdes : d ∉ es := fun h =>
        hI.disj d (List.mem_cons_of_mem _ h) List.mem_cons_self
      have herem : e ∉ rem' := fun h => hI.disj e List.mem_cons_self (hsub e h)
      -- the head donor never grows afterwards
      have hd' : m ≤ size L' d ∧ ∃ t, size L1 d = size L' d + t * m := by
        by_cases hdr : d ∈ rem'
        · exact A4 d hdr
        · have := A5 d hdes hdr
          have hb := hI.big d List.mem_cons_self
          exact ⟨by omega, 0, by omega⟩
      have hrest : ∀ r ∈ rest, size L1 r = size L r := by
        intro r hr
        refine M4 r (fun h => hnd.1 (h ▸ hr)) (fun h => ?_)
        exact hI.disj e List.mem_cons_self (h ▸ List.mem_cons_of_mem _ hr)
      have hle1 : ∀ a ∈ d :: rest, size L1 a ≤ size L a := by
        intro a ha
        rcases List.mem_cons.mp ha with rfl | ha
        · omega
        · exact Nat.le_of_eq (hrest a ha)
      refine ⟨A1.trans M1, ?_, ?_, ?_, ?_⟩
      · intro i hi
        by_cases h1 : L'[i]? = L1[i]?
        · rw [h1] at hi
          obtain ⟨m1, m2⟩ := M5 i hi
          refine ⟨d, e, m1, h1.trans m2, List.mem_cons_self, List.mem_cons_self, ?_⟩
          obtain ⟨_, t, ht⟩ := hd'
          omega
        · obtain ⟨a, b, a1, a2, a3, a4, a5⟩ := A2 i h1
          have h2 : L1[i]? = L[i]? := by
            apply Classical.byContradiction
            intro hne
            have := (M5 i hne).2
            rw [a1] at this
            exact herem (Option.some.inj this ▸ a3)
          refine ⟨a, b, h2 ▸ a1, a2, hsub a a3, List.mem_cons_of_mem _ a4, ?_⟩
          have := hle1 a (hsub a a3)
          omega
      · intro x hx
        rcases List.mem_cons.mp hx with rfl | hx
        · rw [A5 x hes.1 herem, M3]
        · rw [A3 x hx, M4 x (fun h => hdes (h ▸ hx)) (fun h => hes.1 (h ▸ hx))]
      · intro r hr
        rcases List.mem_cons.mp hr with rfl | hr
        · obtain ⟨h1, t, ht⟩ := hd'
          exact ⟨h1, t + 1, by rw [Nat.add_mul]; omega⟩
        · rw [← hrest r hr]
          exact A4 r (hsup r hr)
      · intro k hk1 hk2
        rw [List.mem_cons, not_or] at hk1 hk2
        rw [A5 k hk1.2 (fun h => hk2 |> fun hk2 => by
          rcases List.mem_cons.mp (hsub k h) with h | h
          · exact hk2.1 h
          · exact hk2.2 h), M4 k hk2.1 hk1.1]

/-! ### the ranking -/

section ranking
variable {α : Type} [LT α] [DecidableLT α]

theorem insertDesc_perm (spread : Nat → α) (x : Nat) (l : List Nat) :
    (insertDesc spread x l).Perm (x :: l) := by
  induction l with
  | nil => exact List.Perm.refl _
  | cons y ys ih =>
    simp only [insertDesc]
    split
    · exact (List.Perm.cons y ih).trans (List.Perm.swap x y ys)
    · exact List.Perm.refl _

theorem foldr_insertDesc_perm (spread : Nat → α) (l : List Nat) :
    (l.foldr (insertDesc spread) []).Perm l := by
  induction l with
  | nil => exact List.Perm.refl _
  | cons x xs ih => exact (insertDesc_perm _ _ _).trans (List.Perm.cons x ih)

theorem mem_rankedDonors (spread : Nat → α) (K m : Nat) (labels : List Nat) (d : Nat) :
    d ∈ rankedDonors spread K m labels ↔ d < K ∧ 2 * m ≤ size labels d := by
  unfold rankedDonors
  rw [(foldr_insertDesc_perm spread _).mem_iff, List.mem_filter, List.mem_range,
    decide_eq_true_iff]
  exact Iff.rfl

theorem rankedDonors_nodup (spread : Nat → α) (K m : Nat) (labels : List Nat) :
    (rankedDonors spread K m labels).Nodup := by
  unfold rankedDonors
  rw [(foldr_insertDesc_perm spread _).nodup_iff]
  exact List.Pairwise.filter _ List.nodup_range

end ranking

section sorted
variable {α : Type} [LinearOrder α]

theorem insertDesc_sorted (spread : Nat → α) (x : Nat) (l : List Nat)
    (hl : l.Pairwise (fun a b => spread b < spread a ∨ (spread a = spread b ∧ a < b)))
    (hx : ∀ y ∈ l, x < y) :
    (insertDesc spread x l).Pairwise
      (fun a b => spread b < spread a ∨ (spread a = spread b ∧ a < b)) := by
  induction l with
  | nil => simp [insertDesc]
  | cons y ys ih =>
    rw [List.pairwise_cons] at hl
    simp only [insertDesc]
    split
    · rename_i hlt
      rw [List.pairwise_cons]
      refine ⟨?_, ih hl.2 (fun z hz => hx z (List.mem_cons_of_mem _ hz))⟩
      intro z hz
      rcases List.mem_cons.mp ((insertDesc_perm spread x ys).mem_iff.mp hz) with rfl | hz
      · exact Or.inl hlt
      · exact hl.1 z hz
    · rename_i hnlt
      have hyx : spread y ≤ spread x := not_lt.mp hnlt
      rw [List.pairwise_cons]
      refine ⟨?_, List.pairwise_cons.mpr hl⟩
      intro z hz
      have hzx : spread z ≤ spread x := by
        rcases List.mem_cons.mp hz with rfl | hz
        · exact hyx
        · rcases hl.1 z hz with h | h
          · exact le_trans (le_of_lt h) hyx
          · exact le_trans (le_of_eq h.1.symm) hyx
      rcases lt_or_eq_of_le hzx with h | h
      · exact Or.inl h
      · exact Or.inr ⟨h.symm, hx z hz⟩

theorem foldr_insertDesc_sorted (spread : Nat → α) (l : List Nat) (hl : l.Pairwise (· < ·)) :
    (l.foldr (insertDesc spread) []).Pairwise
      (fun a b => spread b < spread a ∨ (spread a = spread b ∧ a < b)) := by
  induction l with
  | nil => simp
  | cons x xs ih =>
    rw [List.pairwise_cons] at hl
    refine insertDesc_sorted spread x _ (ih hl.2) ?_
    intro y hy
    exact hl.1 y ((foldr_insertDesc_perm spread xs).mem_iff.mp hy)

theorem rankedDonors_sorted (spread : Nat → α) (K m : Nat) (labels : List Nat) :
    (rankedDonors spread K m labels).Pairwise
      (fun a b => spread b < spread a ∨ (spread a = spread b ∧ a < b)) :=
  foldr_insertDesc_sorted spread _ (List.Pairwise.filter _ List.pairwise_lt_range)

end sorted

/-! ### `repopulate` in terms of the loop -/

theorem mem_needy (K : Nat) (labels : List Nat) (e : Nat) :
    e ∈ needy K labels ↔ e < K ∧ size labels e < 2 := by
  unfold needy
  rw [List.mem_filter, List.mem_range, decide_eq_true_iff]
  exact Iff.rfl

theorem needy_nodup (K : Nat) (labels : List Nat) : (needy K labels).Nodup :=
  List.Pairwise.filter _ List.nodup_range

section top
variable {α : Type} [LT α] [DecidableLT α]

theorem inv_init (spread : Nat → α) {K m : Nat} {order labels : List Nat} (hm : 1 ≤ m)
    (ho : order.Perm (needy K labels)) :
    Inv m order (rankedDonors spread K m labels) labels := by
  refine ⟨ho.nodup_iff.mpr (needy_nodup K labels), rankedDonors_nodup spread K m labels, ?_, ?_⟩
  · intro e he hr
    have h1 := ((mem_needy K labels e).mp (ho.mem_iff.mp he)).2
    have h2 := ((mem_rankedDonors spread K m labels e).mp hr).2
    omega
  · intro d hd
    exact ((mem_rankedDonors spread K m labels d).mp hd).2

theorem repopulate_eq (spread : Nat → α) {K : Nat} (m : Nat) (pick : Nat → Nat → List Nat)
    {order labels : List Nat} (ho : order.Perm (needy K labels)) :
    repopulate K m spread pick order labels =
      refill m pick order (rankedDonors spread K m labels) labels 0 := by
  unfold repopulate
  split
  · rename_i h
    rw [h] at ho
    rw [ho.eq_nil, refill]
  · rfl

theorem donorsUsed_eq (spread : Nat → α) {K : Nat} (m : Nat) (pick : Nat → Nat → List Nat)
    {order labels : List Nat} (ho : order.Perm (needy K labels)) :
    donorsUsed K m spread pick order labels =
      refillDonors m pick order (rankedDonors spread K m labels) labels 0 := by
  unfold donorsUsed
  split
  · rename_i h
    rw [h] at ho
    rw [ho.eq_nil, refillDonors]
  · rfl

/-- everything a successful `repopulate` guarantees, in one package. -/
theorem repopulate_spec (spread : Nat → α) {K m : Nat} {pick : Nat → Nat → List Nat}
    {order labels labels' : List Nat} (hm : 1 ≤ m) (hp : ValidPick m pick)
    (ho : order.Perm (needy K labels))
    (h : repopulate K m spread pick order labels = some labels') :
    RefillSpec m order (rankedDonors spread K m labels) labels labels' := by
  rw [repopulate_eq spread m pick ho] at h
  exact refill_spec hm hp order _ _ _ _ (inv_init spread hm ho) h

end top

/-! ### the loop with its stopping state (`refillTrace`) -/

theorem refillTrace_agrees_aux (m : Nat) (pick : Nat → Nat → List Nat) (es : List Nat) :
    ∀ (rem L : List Nat) (s : Nat),
      ((refillTrace m pick es rem L s).2 = true →
        refill m pick es rem L s = some (refillTrace m pick es rem L s).1) ∧
      ((refillTrace m pick es rem L s).2 = false → refill m pick es rem L s = none) := by
  induction es with
  | nil => intro rem L s; simp [refillTrace, refill]
  | cons e es ih =>
    intro rem L s
    cases hf : findDonor (size L) m rem with
    | none => simp [refillTrace, refill, hf]
    | some p =>
      obtain ⟨d, rem'⟩ := p
      simp only [refillTrace, refill, hf]
      exact ih _ _ _

/-- for `m ≥ 2`: when the loop stops with an error, no cluster `< K` holds `2m` points. -/
theorem refillTrace_no_donor_left {m K : Nat} {pick : Nat → Nat → List Nat} (hm : 2 ≤ m)
    (hp : ValidPick m pick) (es : List Nat) :
    ∀ (rem L : List Nat) (s : Nat), Inv m es rem L → (∀ e ∈ es, size L e < 2) →
      (∀ k, k < K → k ∉ rem → size L k < 2 * m) →
      (refillTrace m pick es rem L s).2 = false →
      ∀ k, k < K → size (refillTrace m pick es rem L s).1 k < 2 * m := by
  induction es with
  | nil => intro rem L s _ _ _ h; simp [refillTrace] at h
  | cons e es ih =>
    intro rem L s hI hsmall hout herr
    cases rem with
    | nil =>
      intro k hk
      simp only [refillTrace, findDonor_nil]
      exact hout k hk (by simp)
    | cons d rest =>
      obtain ⟨rem', hf, hrem', hI', -⟩ := refill_step (by omega) hp hI s
      obtain ⟨-, M2, M3, M4, -⟩ := move_of_inv hp hI s
      simp only [refillTrace, hf] at herr ⊢
      have hnd := List.nodup_cons.mp hI.rem_nodup
      have hes := List.nodup_cons.mp hI.es_nodup
      have hde : d ≠ e := fun h => hI.disj e List.mem_cons_self (h ▸ List.mem_cons_self)
      have hfd := hf
      rw [findDonor_cons_of_le _ _ _ _ (hI.big d List.mem_cons_self)] at hfd
      refine ih _ _ _ hI' ?_ ?_ herr
      · intro x hx
        have hxe : x ≠ e := fun h => hes.1 (h ▸ hx)
        have hxd : x ≠ d := fun h =>
          hI.disj x (List.mem_cons_of_mem _ hx) (h ▸ List.mem_cons_self)
        rw [M4 x hxd hxe]
        exact hsmall x (List.mem_cons_of_mem _ hx)
      · intro k hk hkr
        by_cases hke : k = e
        · subst hke
          have := hsmall k List.mem_cons_self
          omega
        · by_cases hkd : k = d
          · subst hkd
            split at hfd
            · omega
            · simp only [Option.some.injEq, Prod.mk.injEq, true_and] at hfd
              exact absurd (hfd ▸ List.mem_cons_self) hkr
          · rw [M4 k hkd hke]
            refine hout k hk (fun h => ?_)
            rcases List.mem_cons.mp h with h | h
            · exact hkd h
            · rcases hrem' with rfl | rfl
              · exact hkr h
              · exact hkr (List.mem_cons_of_mem _ h)

end FastTicc.Repop

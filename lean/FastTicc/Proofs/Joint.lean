/- Helper lemmas for property C07 (kernel half). -/
import FastTicc.Props.C01
import FastTicc.Props.C06
import FastTicc.Props.C07mask

namespace FastTicc.Joint
open FastTicc.Viterbi FastTicc.Stack

set_option linter.unusedSectionVars false

/-- the mask entry pricing the pair `(i, i+1)` is 1 exactly when both points lie in one series. -/
theorem mask_getD_eq_one (lens : List Nat) (hpos : ∀ n ∈ lens, 0 < n) (i : Nat)
    (hi : i + 1 < lens.sum) :
    ((maskTemplate lens).getD i 0 == 1) = (seriesOf lens i == seriesOf lens (i + 1)) := by
  have hlt : i < (maskTemplate lens).length := by rw [maskTemplate_length]; omega
  have hz := mask_zero_iff_boundary lens hpos i hi
  have hbin := maskTemplate_binary lens _ (List.getElem_mem hlt)
  rw [List.getD_eq_getElem?_getD, List.getElem?_eq_getElem hlt] at *
  simp only [Option.getD_some, Option.some.injEq] at *
  rw [Bool.eq_iff_iff]
  simp only [beq_iff_eq]
  rcases hbin with h0 | h1
  · rw [h0]
    simp only [zero_ne_one, false_iff]
    exact hz.mp h0
  · rw [h1]
    simp only [true_iff]
    by_contra hne
    have := hz.mpr hne
    omega

variable {α : Type} [Field α] [LinearOrder α] [IsStrictOrderedRing α]

/-- the masked betas are non-negative when `beta` is. -/
theorem masked_beta_nonneg (beta : α) (hb : 0 ≤ beta) (mask : List Nat) :
    ∀ b ∈ mask.map (fun (x : Nat) => beta * (x : α)), 0 ≤ b := by
  intro b hbm
  obtain ⟨x, _, rfl⟩ := List.mem_map.mp hbm
  exact mul_nonneg hb (Nat.cast_nonneg x)

end FastTicc.Joint

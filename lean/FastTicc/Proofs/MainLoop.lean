/- Helper lemmas for properties C09, C14, C15, C20. -/
import FastTicc.Model.MainLoop

namespace FastTicc.MainLoop

/-! ### one round -/

section Round
variable {σ ε : Type} (P : Phases σ ε)

/-- the round translated from the source is the round C09 describes.  (Breaks — and with it every
theorem about the loop — as soon as the extracted phase order / guard differ.) -/
theorem round_eq_spec (i : Nat) (s : σ) : round P i s = roundSpec P i s := by
  simp only [round, Constants.phaseOrder, List.foldlM, applyPhase, Constants.repopGuarded, if_true,
    roundSpec, bind_assoc, bind_pure]
  split <;> rfl

theorem round_zero (s : σ) : round P 0 s = (P.stats s >>= P.opt >>= P.relabel) := by
  rw [round_eq_spec]
  simp only [roundSpec, Constants.repopAfterRound, Nat.lt_irrefl, if_false, bind, Except.bind,
    pure, Except.pure]
  cases P.stats s <;> rfl

theorem round_pos (i : Nat) (hi : 0 < i) (s : σ) :
    round P i s = (P.repop s >>= P.stats >>= P.opt >>= P.relabel) := by
  rw [round_eq_spec]
  simp only [roundSpec, Constants.repopAfterRound, hi, if_true, bind, Except.bind]
  cases P.repop s with
  | error e => rfl
  | ok s1 =>
    simp only []
    cases P.stats s1 <;> rfl

end Round

/-! ### the loop -/

section Loop
variable {σ ε L : Type} [DecidableEq L] (P : Phases σ ε) (labels : σ → L)

theorem loop_succ_ok {fuel i : Nat} {prev : Option L} {s : σ} {hist : List σ} {r : Outcome σ}
    (h : loop P labels (fuel + 1) i prev s hist = .ok r) :
    ∃ s', round P i s = .ok s' ∧
      ((prev = some (labels s') ∧ r = ⟨s', i + 1, hist ++ [s']⟩) ∨
       (prev ≠ some (labels s') ∧
         loop P labels fuel (i + 1) (some (labels s')) s' (hist ++ [s']) = .ok r)) := by
  unfold loop at h
  cases hr : round P i s with
  | error e => simp [hr, bind, Except.bind] at h
  | ok s' =>
    refine ⟨s', rfl, ?_⟩
    simp only [hr, bind, Except.bind] at h
    by_cases hp : prev = some (labels s')
    · left
      simp only [hp, if_true, pure, Except.pure] at h
      exact ⟨hp, (Except.ok.inj h).symm⟩
    · right
      simp only [hp, if_false] at h
      exact ⟨hp, h⟩

theorem loop_succ_error {fuel i : Nat} {prev : Option L} {s : σ} {hist : List σ} {e : ε}
    (h : loop P labels (fuel + 1) i prev s hist = .error e) :
    round P i s = .error e ∨
      ∃ s', round P i s = .ok s' ∧ prev ≠ some (labels s') ∧
        loop P labels fuel (i + 1) (some (labels s')) s' (hist ++ [s']) = .error e := by
  unfold loop at h
  cases hr : round P i s with
  | error e' =>
    left
    simp only [hr, bind, Except.bind] at h
    cases h
    rfl
  | ok s' =>
    right
    refine ⟨s', rfl, ?_⟩
    simp only [hr, bind, Except.bind] at h
    by_cases hp : prev = some (labels s')
    · simp [hp, pure, Except.pure] at h
    · simp only [hp, if_false] at h
      exact ⟨hp, h⟩

theorem loop_round_error (fuel i : Nat) (prev : Option L) (s : σ) (hist : List σ) (e : ε)
    (h : round P i s = .error e) :
    loop P labels (fuel + 1) i prev s hist = .error e := by
  unfold loop
  simp [h, bind, Except.bind]

/-- everything the properties need to know about a successful `loop`. -/
structure Spec (fuel i : Nat) (s : σ) (hist : List σ) (r : Outcome σ) : Prop where
  lo : i ≤ r.rounds
  lo' : 1 ≤ fuel → i + 1 ≤ r.rounds
  two : i = 0 → 2 ≤ fuel → 2 ≤ r.rounds
  hi : r.rounds ≤ i + fuel
  len : r.history.length = r.rounds
  pre : ∃ t, r.history = hist ++ t
  last : 1 ≤ r.rounds → r.history[r.rounds - 1]? = some r.final
  chain : ∀ j, i ≤ j → j < r.rounds →
    ∃ sPrev sj, (if j = i then some s else r.history[j - 1]?) = some sPrev ∧
      r.history[j]? = some sj ∧ round P j sPrev = .ok sj
  early : r.rounds < i + fuel →
    2 ≤ r.rounds ∧ ∃ a b, r.history[r.rounds - 2]? = some a ∧
      r.history[r.rounds - 1]? = some b ∧ labels a = labels b
  first : ∀ j, i ≤ j → 1 ≤ j → j + 1 < r.rounds →
    ∀ a b, r.history[j - 1]? = some a → r.history[j]? = some b → labels a ≠ labels b

theorem loop_spec : ∀ (fuel i : Nat) (prev : Option L) (s : σ) (hist : List σ) (r : Outcome σ),
    loop P labels fuel i prev s hist = .ok r →
    hist.length = i →
    (i = 0 → prev = none) →
    (0 < i → hist[i - 1]? = some s ∧ prev = some (labels s)) →
    Spec P labels fuel i s hist r := by
  intro fuel
  induction fuel with
  | zero =>
    intro i prev s hist r h hlen h0 hpos
    have hr : r = ⟨s, i, hist⟩ := (Except.ok.inj h).symm
    subst hr
    refine ⟨Nat.le_refl _, by omega, by omega, by simp, hlen, ⟨[], by simp⟩, ?_, ?_, ?_, ?_⟩
    · intro h1
      exact (hpos h1).1
    · intro j h1 h2
      simp at h2
      omega
    · intro h1
      simp at h1
    · intro j h1 _ h2
      simp at h2
      omega
  | succ fuel ih =>
    intro i prev s hist r h hlen h0 hpos
    obtain ⟨s', hround, hcase⟩ := loop_succ_ok P labels h
    rcases hcase with ⟨hp, hr⟩ | ⟨hp, hl⟩
    · -- break
      subst hr
      have hi0 : 0 < i := by
        rcases Nat.eq_zero_or_pos i with h | h
        · rw [h0 h] at hp; cases hp
        · exact h
      obtain ⟨hs, hprev⟩ := hpos hi0
      have hlab : labels s = labels s' := by
        rw [hprev] at hp
        exact Option.some.inj hp
      have hA : (hist ++ [s'])[i - 1]? = some s := by
        rw [List.getElem?_append_left (by omega)]; exact hs
      have hB : (hist ++ [s'])[i]? = some s' := by
        rw [List.getElem?_append_right (by omega)]; simp [hlen]
      refine ⟨by simp, by simp, by omega, by simp, by simp [hlen], ⟨[s'], rfl⟩, ?_, ?_, ?_, ?_⟩
      · intro _
        simpa using hB
      · intro j h1 h2
        have hj : j = i := by simp at h2; omega
        subst hj
        exact ⟨s, s', by simp, hB, hround⟩
      · intro _
        refine ⟨by simp; omega, s, s', ?_, ?_, hlab⟩
        · have : i + 1 - 2 = i - 1 := by omega
          simpa [this] using hA
        · simpa using hB
      · intro j h1 _ h2
        simp at h2
        omega
    · -- continue
      have hlen' : (hist ++ [s']).length = i + 1 := by simp [hlen]
      have hB0 : (hist ++ [s'])[i]? = some s' := by
        rw [List.getElem?_append_right (by omega)]; simp [hlen]
      have IH := ih (i + 1) (some (labels s')) s' (hist ++ [s']) r hl hlen'
        (by omega) (fun _ => ⟨by simpa using hB0, rfl⟩)
      obtain ⟨t, ht⟩ := IH.pre
      have hB : r.history[i]? = some s' := by
        rw [ht, List.getElem?_append_left (by omega)]; exact hB0
      have hA : 0 < i → r.history[i - 1]? = some s := by
        intro hi0
        rw [ht, List.getElem?_append_left (by omega), List.getElem?_append_left (by omega)]
        exact (hpos hi0).1
      have hlo := IH.lo
      refine ⟨by omega, fun _ => hlo, ?_, ?_, IH.len, ⟨[s'] ++ t, by simp [ht]⟩, IH.last, ?_, ?_, ?_⟩
      · intro hi0 hf
        have := IH.lo' (by omega)
        omega
      · have := IH.hi; omega
      · intro j h1 h2
        rcases Nat.eq_or_lt_of_le h1 with hj | hj
        · subst hj
          exact ⟨s, s', by simp, hB, hround⟩
        · obtain ⟨sPrev, sj, e1, e2, e3⟩ := IH.chain j hj h2
          refine ⟨sPrev, sj, ?_, e2, e3⟩
          have hne : j ≠ i := by omega
          simp only [hne, if_false]
          by_cases hj1 : j = i + 1
          · subst hj1
            simp only [if_true] at e1
            simpa [← e1] using hB
          · simpa [hj1] using e1
      · intro hlt
        exact IH.early (by omega)
      · intro j h1 h2 h3 a b ha hb
        rcases Nat.eq_or_lt_of_le h1 with hj | hj
        · subst hj
          have hi0 : 0 < i := h2
          rw [hA hi0] at ha
          rw [hB] at hb
          cases ha; cases hb
          intro hEq
          apply hp
          rw [(hpos hi0).2, hEq]
        · exact IH.first j hj h2 h3 a b ha hb

theorem run_spec {limit : Nat} {s0 : σ} {r : Outcome σ} (h : run P labels limit s0 = .ok r) :
    Spec P labels limit 0 s0 [] r :=
  loop_spec P labels limit 0 none s0 [] r h rfl (fun _ => rfl) (fun h => absurd h (Nat.lt_irrefl 0))

theorem loop_error_from_round : ∀ (fuel i : Nat) (prev : Option L) (s : σ) (hist : List σ) (e : ε),
    loop P labels fuel i prev s hist = .error e →
    ∃ j sPrev, i ≤ j ∧ j < i + fuel ∧ round P j sPrev = .error e := by
  intro fuel
  induction fuel with
  | zero =>
    intro i prev s hist e h
    cases h
  | succ fuel ih =>
    intro i prev s hist e h
    rcases loop_succ_error P labels h with hr | ⟨s', _, _, hl⟩
    · exact ⟨i, s, Nat.le_refl _, by omega, hr⟩
    · obtain ⟨j, sPrev, h1, h2, h3⟩ := ih _ _ _ _ _ hl
      exact ⟨j, sPrev, by omega, by omega, h3⟩

end Loop

/-! ### gather -/

section Gather
variable {β ε : Type}

theorem gather_nil : gather ([] : List (Except ε β)) = .ok [] := rfl

theorem gather_cons_error (e : ε) (ts : List (Except ε β)) :
    gather (Except.error e :: ts) = .error e := rfl

theorem gather_cons_ok (v : β) (ts : List (Except ε β)) :
    gather (Except.ok v :: ts) = (gather ts).map (v :: ·) := by
  simp only [gather, bind, Except.bind, pure, Except.pure]
  cases gather ts <;> rfl

theorem gather_ok_iff' (ts : List (Except ε β)) : ∀ vs : List β,
    gather ts = .ok vs ↔ ts = vs.map Except.ok := by
  induction ts with
  | nil =>
    intro vs
    cases vs <;> simp [gather_nil]
  | cons t ts ih =>
    intro vs
    cases t with
    | error e =>
      rw [gather_cons_error]
      cases vs <;> simp
    | ok v =>
      rw [gather_cons_ok]
      cases hg : gather ts with
      | error e =>
        simp only [Except.map]
        constructor
        · intro h; cases h
        · intro h
          cases vs with
          | nil => cases h
          | cons w ws =>
            simp only [List.map_cons, List.cons.injEq] at h
            have := (ih ws).2 h.2
            rw [hg] at this
            cases this
      | ok ws =>
        simp only [Except.map]
        have hts := (ih ws).1 hg
        constructor
        · intro h
          cases h
          simp [hts]
        · intro h
          cases vs with
          | nil => cases h
          | cons w ws' =>
            simp only [List.map_cons, List.cons.injEq, Except.ok.injEq] at h
            obtain ⟨hv, hws⟩ := h
            have := (ih ws').2 hws
            rw [hg] at this
            cases this
            rw [hv]

theorem gather_error_first' (ts : List (Except ε β)) (e : ε) :
    gather ts = .error e ↔
      ∃ k : Nat, ts[k]? = some (Except.error e) ∧
        ∀ j : Nat, j < k → ∃ v, ts[j]? = some (Except.ok v) := by
  induction ts with
  | nil => simp [gather_nil]
  | cons t ts ih =>
    cases t with
    | error e' =>
      rw [gather_cons_error]
      constructor
      · intro h
        cases h
        exact ⟨0, by simp, by intro j hj; omega⟩
      · rintro ⟨k, hk, hall⟩
        cases k with
        | zero =>
          simp at hk
          rw [hk]
        | succ k =>
          obtain ⟨v, hv⟩ := hall 0 (by omega)
          simp at hv
    | ok v =>
      rw [gather_cons_ok]
      have hmap : Except.map (v :: ·) (gather ts) = .error e ↔ gather ts = .error e := by
        cases gather ts <;> simp [Except.map]
      rw [hmap, ih]
      constructor
      · rintro ⟨k, hk, hall⟩
        refine ⟨k + 1, by simpa using hk, ?_⟩
        intro j hj
        cases j with
        | zero => exact ⟨v, by simp⟩
        | succ j =>
          obtain ⟨w, hw⟩ := hall j (by omega)
          exact ⟨w, by simpa using hw⟩
      · rintro ⟨k, hk, hall⟩
        cases k with
        | zero => simp at hk
        | succ k =>
          refine ⟨k, by simpa using hk, ?_⟩
          intro j hj
          obtain ⟨w, hw⟩ := hall (j + 1) (by omega)
          exact ⟨w, by simpa using hw⟩

end Gather

/-! ### writes in arbitrary order (`complete`, `fill`) -/

section Fill
variable {β : Type}

theorem foldl_set_length (g : Nat → β) (order : List Nat) : ∀ init : List β,
    (order.foldl (fun t i => t.set i (g i)) init).length = init.length := by
  induction order with
  | nil => intro init; rfl
  | cons i order ih =>
    intro init
    simp only [List.foldl_cons]
    rw [ih, List.length_set]

theorem foldl_set_getElem? (g : Nat → β) (order : List Nat) : ∀ (init : List β) (j : Nat),
    (order.foldl (fun t i => t.set i (g i)) init)[j]? =
      if j ∈ order ∧ j < init.length then some (g j) else init[j]? := by
  induction order with
  | nil => intro init j; simp
  | cons i order ih =>
    intro init j
    simp only [List.foldl_cons]
    rw [ih, List.length_set]
    by_cases hjo : j ∈ order
    · by_cases hjl : j < init.length
      · simp [hjo, hjl]
      · have : ¬ j < init.length := hjl
        simp only [hjl, and_false, if_false]
        rw [List.getElem?_eq_none (by simp; omega), List.getElem?_eq_none (by omega)]
    · by_cases hji : j = i
      · subst hji
        by_cases hjl : j < init.length
        · simp [hjo, hjl]
        · simp only [hjo, hjl, and_false, if_false]
          rw [List.getElem?_eq_none (by simp; omega), List.getElem?_eq_none (by omega)]
      · have hne : i ≠ j := fun h => hji h.symm
        simp [hjo, hji, hne]

theorem foldl_set_all (g : Nat → β) (init : List β) (order : List Nat)
    (hall : ∀ i, i < init.length → i ∈ order) :
    order.foldl (fun t i => t.set i (g i)) init = (List.range init.length).map g := by
  apply List.ext_getElem?
  intro j
  rw [foldl_set_getElem?]
  by_cases hj : j < init.length
  · simp [hj, hall j hj]
  · simp only [hj, and_false, if_false]
    rw [List.getElem?_eq_none (by omega), List.getElem?_eq_none (by simp; omega)]

theorem fill_all (g : Nat → β) (init : List β) (order : List Nat)
    (hall : ∀ i, i < init.length → i ∈ order) :
    fill g init order = (List.range init.length).map g :=
  foldl_set_all g init order hall

theorem complete_all (f : Nat → β) (K : Nat) (sched : List Nat)
    (hall : ∀ k, k < K → k ∈ sched) :
    complete f K sched = (List.range K).map (fun k => some (f k)) := by
  have := foldl_set_all (fun k => some (f k)) (List.replicate K none) sched
    (by simpa using hall)
  simpa [complete] using this

end Fill

/-! ### memoisation -/

section Cache
variable {κ β : Type} [DecidableEq κ]

theorem lookup_some_mem (x : κ) (v : β) : ∀ table : List (κ × β),
    table.lookup x = some v → (x, v) ∈ table := by
  intro table
  induction table with
  | nil => intro h; simp [List.lookup] at h
  | cons p table ih =>
    intro h
    obtain ⟨k, w⟩ := p
    by_cases hk : x = k
    · subst hk
      simp [List.lookup] at h
      simp [h]
    · have hb : (x == k) = false := by simpa using hk
      simp only [List.lookup, hb] at h
      exact List.mem_cons_of_mem _ (ih h)

end Cache

end FastTicc.MainLoop
